---------------------------- MODULE MapLockTrace ----------------------------
(***************************************************************************)
(* Trace validation for C12.  Every query issued against the real map      *)
(* forest while a writer was applying blocks is logged as                  *)
(*   {"ev":"call","kind":K,"c0":blocks committed when the call started,    *)
(*    "s1":blocks started when it returned,                                *)
(*    "matched":index of the whole-block state whose answer it returned,   *)
(*              -1 if it returned the answer of no whole-block state}      *)
(* and is a step of the specification only if AtomicBlocks of MapLock.tla  *)
(* holds for it: a whole-block state inside the call window.               *)
(***************************************************************************)
EXTENDS Integers, Sequences, Json, TLC, TLCExt

VARIABLE l
TraceLog == ndJsonDeserialize("trace.ndjson")

\* AtomicBlocks for one returned call (res = <<matched, 0>>)
EventOK(e) == /\ e.ev = "call"
              /\ e.matched >= 0
              /\ e.c0 <= e.matched /\ e.matched <= e.s1

TraceInit == l = 1 /\ TLCSet(1, 1)
TraceNext == /\ l <= Len(TraceLog) /\ EventOK(TraceLog[l]) /\ l' = l + 1
TraceSpec == TraceInit /\ [][TraceNext]_l
TraceProgress == TLCSet(1, IF l > TLCGet(1) THEN l ELSE TLCGet(1))
TraceAccepted ==
  IF TLCGet(1) = Len(TraceLog) + 1 THEN TRUE
  ELSE /\ PrintT("TRACE-REJECTED-AT " \o ToString(TLCGet(1)))
       /\ PrintT(TraceLog[TLCGet(1)])
       /\ FALSE
=============================================================================
