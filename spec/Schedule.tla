------------------------------ MODULE Schedule ------------------------------
(***************************************************************************)
(* The clairvoyant caching schedule (property C15).                        *)
(*                                                                         *)
(* A recorded history is a sequence of block summaries; block b deletes    *)
(* the leaves in slots blocks[b].d (given to the tracker as the positions  *)
(* a prover emits for them) and then appends blocks[b].k leaves, which get *)
(* the next free insertion slots.  A schedule assigns to every block a     *)
(* list of slots to keep.  The property is a relation between the history, *)
(* the memory limit and the schedule - it does not say which leaves to     *)
(* prefer when the limit binds - so it is specified as the predicate       *)
(* SchedOK and the code's output is validated against it (R->T).           *)
(***************************************************************************)
EXTENDS Integers, Sequences, FiniteSets

\* blocks: sequence of [d : set of slots, k : Nat]
RECURSIVE LeavesBefore(_, _)
LeavesBefore(blocks, b) == IF b = 1 THEN 0 ELSE LeavesBefore(blocks, b - 1) + blocks[b - 1].k
TotalLeaves(blocks) == LeavesBefore(blocks, Len(blocks) + 1)

\* the block that created slot x / the block that deleted it (0 = never)
CreatedAt(blocks, x) ==
  CHOOSE b \in 1..Len(blocks) : LeavesBefore(blocks, b) <= x /\ x < LeavesBefore(blocks, b) + blocks[b].k
DeletedAt(blocks, x) ==
  IF \E b \in 1..Len(blocks) : x \in blocks[b].d
  THEN CHOOSE b \in 1..Len(blocks) : x \in blocks[b].d ELSE 0

Spent(blocks) == {x \in 0..(TotalLeaves(blocks) - 1) : DeletedAt(blocks, x) # 0}

ToSetOf(s) == {s[i] : i \in 1..Len(s)}
Scheduled(sched) == UNION {ToSetOf(sched[b]) : b \in 1..Len(sched)}

\* scheduled leaves that exist once block i has been applied
HeldAfter(blocks, sched, i) ==
  {x \in Scheduled(sched) \cap (0..(TotalLeaves(blocks) - 1)) :
      CreatedAt(blocks, x) <= i /\ i < DeletedAt(blocks, x)}

SchedOK(blocks, maxMem, sched) ==
  /\ Len(sched) = Len(blocks)
  \* every entry is a slot created in that block and deleted in a later one
  /\ \A b \in 1..Len(sched) : \A j \in 1..Len(sched[b]) :
        LET x == sched[b][j] IN
        /\ x \in 0..(TotalLeaves(blocks) - 1)
        /\ CreatedAt(blocks, x) = b
        /\ DeletedAt(blocks, x) > b
  \* listed once, in ascending order
  /\ \A b \in 1..Len(sched) : \A j \in 1..(Len(sched[b]) - 1) : sched[b][j] < sched[b][j + 1]
  \* never more than maxMem scheduled leaves alive at once
  /\ \A i \in 1..Len(blocks) : Cardinality(HeldAfter(blocks, sched, i)) <= maxMem
  \* with room for everything, everything that is ever spent is scheduled
  /\ (maxMem >= TotalLeaves(blocks) => Scheduled(sched) = Spent(blocks))

(***************************************************************************)
(* Satisfiability (vacuity guard): for every history and every limit the   *)
(* relation admits a schedule - the complete one when the limit does not   *)
(* bind, and a greedy one that keeps the leaves with the smallest slots    *)
(* as long as there is room.                                               *)
(***************************************************************************)
SlotsOf(blocks, b) == LeavesBefore(blocks, b)..(LeavesBefore(blocks, b) + blocks[b].k - 1)
SortedSeq(S) == CHOOSE s \in [1..Cardinality(S) -> S] : \A i, j \in 1..Cardinality(S) : i < j => s[i] < s[j]
FullSched(blocks) == [b \in 1..Len(blocks) |-> SortedSeq(SlotsOf(blocks, b) \cap Spent(blocks))]
EmptySched(blocks) == [b \in 1..Len(blocks) |-> <<>>]
Satisfiable(blocks, maxMem) ==
  /\ SchedOK(blocks, TotalLeaves(blocks) + 1, FullSched(blocks))
  /\ (maxMem < TotalLeaves(blocks) => SchedOK(blocks, maxMem, EmptySched(blocks)))
  /\ (maxMem >= TotalLeaves(blocks) => SchedOK(blocks, maxMem, FullSched(blocks)))
=============================================================================
