-------------------------------- MODULE Core --------------------------------
(***************************************************************************)
(* API-level state machine of a full accumulator (Stump, Pollard,          *)
(* MapPollard full/partial).  One action per public call.  The abstract    *)
(* state is (n, live); `stack' holds the earlier abstract states that Undo *)
(* returns to.  Every action emits, as one JSON line, the witness history  *)
(* of its source state, the step taken (with everything the call needs:    *)
(* the canonical proof, the previous roots) and the complete expected      *)
(* observation of the target state.  A Go harness replays each line on the *)
(* real code (G->R); the trace specification CoreTrace re-uses the same    *)
(* actions to validate logs recorded from the real code (R->T).            *)
(***************************************************************************)
EXTENDS Forest, Json

CONSTANTS MaxN,        \* bound on leaves ever added
          MaxAdds,     \* additions per block: 0..MaxAdds
          MaxStack,    \* undo records kept (reorganisation depth)
          MaxUnd,      \* number of Undo calls per behaviour
          MaxRst,      \* number of Restore calls per behaviour
          MaxProbe,    \* number of queries (Prove + Verify everywhere) recorded inside a history
          Acts,        \* enabled actions: subset of {"mod","undo","prove","restore","enc"}
          MaxPerm,     \* request orders: all permutations up to this size
          TrackUndone, \* TRUE: which block was undone stays part of the state for one more block (see Undo)
          TrackEnc,    \* TRUE: the encoding (kind, unused hashes) of the last block stays part of the state, so
                       \*       that every accepted encoding of a block is followed by its Undo (see Modify)
          MaxReuse,    \* 1: one block per behaviour may append a leaf that carries the hash of a leaf it deletes
          MinN,        \* wide configurations: every state with MinN <= n <= MaxN - MaxAdds and at most
          InitLive     \* InitLive live leaves is an initial state (InitLive >= 99: start from the empty accumulator)

VARIABLES n, live, stack, marks, hist

vars == <<n, live, stack, marks, hist>>
View == <<n, live, stack, marks>>

(***************************************************************************)
(* JSON rendering                                                          *)
(***************************************************************************)
JPos(p)       == <<p.row, p.idx>>
JProof(pr)    == [t |-> [i \in 1..Len(pr.t) |-> JPos(pr.t[i])], p |-> pr.p]
AscSeq(S)     == SetToSortSeq(S, <)
JUpd(u)       == [ prev |-> u.prev,
                   td   |-> [i \in 1..Len(u.td) |-> JPos(u.td[i])],
                   ndel |-> [i \in 1..Len(u.ndel) |-> <<u.ndel[i][1].row, u.ndel[i][1].idx, u.ndel[i][2]>>],
                   nadd |-> [i \in 1..Len(u.nadd) |-> <<u.nadd[i][1].row, u.nadd[i][1].idx, u.nadd[i][2]>>] ]
NodeLess(a, b) == PosLess(NodePos(a), NodePos(b))

\* the complete observation of the abstract state (x, lv)
Obs(x, lv) ==
  LET nds == Nodes(x, lv)
      sq  == SetToSortSeq(nds, NodeLess)
      lf  == AscSeq(lv)
  IN  [ n      |-> x,
        roots  |-> Roots(x, lv),
        leaves |-> [i \in 1..Len(lf) |->
                      LET p == PosOfIn(nds, lf[i]) IN <<lf[i], p.row, p.idx>>],
        nodes  |-> [i \in 1..Len(sq) |-> <<sq[i].row, sq[i].idx, sq[i].hash>>] ]

Orders(S) ==
  IF Cardinality(S) <= MaxPerm THEN SetToSeqs(S)
  ELSE LET a == AscSeq(S) IN {a, Reverse(a), Tail(a) \o <<Head(a)>>}

Emit(step, expect) ==
  PrintT("@@" \o ToJson([fam |-> "core", hist |-> hist, step |-> step, expect |-> expect]))

(***************************************************************************)
(* Steps (the records that are appended to hist and emitted)               *)
(***************************************************************************)
NoEnc == [kind |-> "canon", junk |-> 0]

ModStepAt(x, lv, ord, k, enc) ==
  LET D   == ToSet(ord)
      lv2 == (lv \ D) \cup (x..(x + k - 1))
      \* an assembled encoding carries the canonical proofs it is assembled from
      encx == IF enc.kind = "addproof"
              THEN enc @@ [pa |-> JProof(CanonProof(x, lv, enc.a)), pb |-> JProof(CanonProof(x, lv, enc.b))]
              ELSE IF enc.kind = "subset"
              THEN enc @@ [psup |-> JProof(CanonProof(x, lv, enc.sup))]
              ELSE enc
  IN  [ a |-> "mod", d |-> ord, k |-> k, enc |-> encx,
        pf   |-> JProof(CanonProof(x, lv, ord)),
        pre  |-> Roots(x, lv),
        post |-> Roots(x + k, lv2),
        upd  |-> JUpd(UpdateDataRef(x, lv, D, k)) ]
ModStep(ord, k, enc) == ModStepAt(n, live, ord, k, enc)

UndoStep ==
  LET prev == Head(stack)
      ord  == AscSeq(prev.live \ live)
  IN  [ a |-> "undo", d |-> ord, k |-> n - prev.n,
        pf   |-> JProof(CanonProof(prev.n, prev.live, ord)),
        pre  |-> Roots(prev.n, prev.live),
        post |-> Roots(prev.n, prev.live) ]

(***************************************************************************)
(* Encodings of a deletion proof that a verifier may accept (C05).         *)
(* The abstract effect of the block does not depend on the encoding.       *)
(***************************************************************************)
Encs(D) ==
  IF "enc" \notin Acts \/ D = {} THEN {<<AscSeq(D), NoEnc>>}
  ELSE { <<o, [kind |-> "perm", junk |-> j]>> : o \in Orders(D), j \in 0..2 }
       \cup UNION { { <<AscSeq(D), [kind |-> "addproof", junk |-> 0, a |-> AscSeq(A), b |-> AscSeq(B)]>> :
                       B \in {D \ A, D} \ {{}} } : A \in SUBSET D \ {{}} }
       \cup { <<AscSeq(D), [kind |-> "subset", junk |-> 0, sup |-> AscSeq(S)]>> :
                S \in {T \in SUBSET live : D \subseteq T /\ Cardinality(T) <= Cardinality(D) + 2} }

(***************************************************************************)
(* Actions                                                                 *)
(***************************************************************************)
\* the history that builds (x, lv) from the empty accumulator in two blocks:
\* append x leaves, delete the dead ones
InitHist(x, lv) ==
  LET dead == (0..(x - 1)) \ lv IN
  (IF x = 0 THEN <<>> ELSE <<ModStepAt(0, {}, <<>>, x, NoEnc)>>)
    \o (IF dead = {} THEN <<>> ELSE <<ModStepAt(x, 0..(x - 1), AscSeq(dead), 0, NoEnc)>>)

Init == /\ stack = <<>> /\ marks = [und |-> 0, rst |-> 0, probe |-> 0, undone |-> <<>>, trail |-> 0, lab |-> <<>>, enc |-> <<>>]
        /\ IF InitLive >= 99
           THEN n = 0 /\ live = {} /\ hist = <<>>
           ELSE /\ n \in MinN..(MaxN - MaxAdds)     \* room for one full block
                /\ live \in {S \in SUBSET (0..(n - 1)) : Cardinality(S) <= InitLive}
                /\ hist = InitHist(n, live)

\* wide configurations: blocks start from sparse states only
WideOK == IF InitLive >= 99 THEN TRUE ELSE Cardinality(live) <= InitLive   \* (no disjunction: TLC would split the action)

Push(rec) == IF MaxStack = 0 THEN <<>>
             ELSE SubSeq(<<rec>> \o stack, 1, IF Len(stack) + 1 > MaxStack THEN MaxStack ELSE Len(stack) + 1)

\* Leaf hashes and leaves are not the same thing: a block may spend a leaf and
\* append a leaf that carries the very same hash (the set of live hashes stays
\* duplicate free).  The reference semantics is written over slots, with the
\* hash term L<s> for slot s; marks.lab = <<to, from>> says that the leaf of slot
\* `to' carries the hash L<from> instead (every emitted hash term is to be read
\* under that substitution, which the replay harness applies).  At most one
\* relabelling is in force; undoing the block that introduced it lifts it.
ReuseOpts(D, k) ==
  {<<>>} \cup (IF MaxReuse > 0 /\ marks.lab = <<>> /\ k > 0
               THEN {<<n, d>> : d \in D} ELSE {})

Modify ==
  /\ "mod" \in Acts
  /\ WideOK
  /\ \E D \in SUBSET live, k \in 0..MaxAdds :
       /\ n + k <= MaxN
       /\ \E e \in Encs(D), ru \in ReuseOpts(D, k) :
            LET lab2 == IF ru # <<>> THEN ru ELSE marks.lab
                step == ModStep(e[1], k, e[2]) @@ [lab |-> lab2]
                n2   == n + k
                lv2  == (live \ D) \cup (n..(n + k - 1))
                m2   == IF marks.undone = <<>> THEN marks
                        ELSE IF marks.trail = 0 THEN [marks EXCEPT !.trail = 1]
                        ELSE [marks EXCEPT !.undone = <<>>, !.trail = 0]
            IN  /\ n' = n2
                /\ live' = lv2
                /\ stack' = Push([n |-> n, live |-> live])
                /\ marks' = [m2 EXCEPT !.lab = lab2,
                                       !.enc = IF TrackEnc /\ D # {} THEN <<e[2].kind, e[2].junk>> ELSE <<>>]
                /\ hist' = Append(hist, step)
                /\ Emit(step, Obs(n2, lv2))

Undo ==
  /\ "undo" \in Acts
  /\ stack # <<>>
  /\ marks.und < MaxUnd
  /\ LET prev == Head(stack)
         lab2 == IF marks.lab # <<>> THEN (IF prev.n <= marks.lab[1] THEN <<>> ELSE marks.lab) ELSE <<>>
         step == UndoStep @@ [lab |-> lab2]
     IN  /\ n' = prev.n
         /\ live' = prev.live
         /\ stack' = Tail(stack)
         \* Undoing different blocks leads to the same abstract state but may leave an
         \* implementation in different hidden states (rebuilt nodes, flags).  With
         \* TrackUndone the undone block stays part of the state until one further
         \* block has been applied, so that every (undone block, next block) pair is
         \* continued and queried - not only the first witness found.
         /\ marks' = [marks EXCEPT !.und = @ + 1,
                                   !.undone = IF TrackUndone THEN <<prev.live \ live, n - prev.n>> ELSE <<>>,
                                   !.trail = 0,
                                   !.lab = lab2,
                                   !.enc = <<>>]
         /\ hist' = Append(hist, step)
         /\ Emit(step, Obs(prev.n, prev.live))

\* asking a prover for the live leaves S in request order `ord', and giving
\* the canonical proof to every verifier.  A query does not change the
\* abstract state; up to MaxProbe queries per behaviour are nevertheless
\* recorded in the history, so that behaviours in which a query precedes
\* further blocks and undos are generated (a query must not disturb what
\* follows, e.g. through a cache that a later Undo forgets to invalidate).
Prove ==
  /\ "prove" \in Acts
  /\ \E S \in SUBSET live \ {{}} :
       \E ord \in Orders(S) :
          LET step == [a |-> "prove", s |-> ord, pf |-> JProof(CanonProof(n, live, ord)), lab |-> marks.lab]
          IN  /\ IF marks.probe < MaxProbe
                 THEN /\ marks' = [marks EXCEPT !.probe = @ + 1, !.enc = <<>>]
                      /\ hist' = Append(hist, step)
                      /\ UNCHANGED <<n, live, stack>>
                 ELSE UNCHANGED vars
              /\ Emit(step, [pf |-> JProof(CanonProof(n, live, ord)),
                             trees |-> AscSeq(TreesOf(n, live, S)),
                             n |-> n, roots |-> Roots(n, live)])

\* serialize + restore; the behaviour continues on the restored instance
Restore ==
  /\ "restore" \in Acts
  /\ marks.rst < MaxRst
  /\ LET step == [a |-> "restore", lab |-> marks.lab]
     IN  /\ UNCHANGED <<n, live, stack>>
         /\ marks' = [marks EXCEPT !.rst = @ + 1, !.enc = <<>>]
         /\ hist' = Append(hist, step)
         /\ Emit(step, Obs(n, live))

Next == Modify \/ Undo \/ Prove \/ Restore

Spec == Init /\ [][Next]_vars

(***************************************************************************)
(* Design-level invariants of the reference semantics (checked by TLC on   *)
(* every reachable state; a failure here is a defect of the specification, *)
(* never of the code).                                                     *)
(***************************************************************************)
TypeOK == /\ n \in 0..MaxN /\ live \subseteq 0..(n-1)
          /\ Len(stack) <= MaxStack

\* under a relabelling the live leaves still carry pairwise distinct hashes
LabOK == marks.lab # <<>> =>
           /\ marks.lab[1] < n /\ marks.lab[2] < marks.lab[1] /\ marks.lab[2] \notin live

\* state constraint for the wide configurations: few live leaves, many slots
SparseLive == Cardinality(live) <= 4

RootCountOK == Len(Roots(n, live)) = PopCount(n)

\* every live leaf has exactly one node, positions are pairwise distinct,
\* a two-child node's hash is the hash of its children, and the node at a
\* root position carries the root hash
NodesOK ==
  LET nds == Nodes(n, live)
  IN  /\ \A s \in live : Cardinality({nd \in nds : nd.slot = s}) = 1
      /\ \A a, b \in nds : NodePos(a) = NodePos(b) => a = b
      /\ \A nd \in nds : nd.slot = -1 =>
            nd.hash = H(NodeAtIn(nds, LChild(NodePos(nd))), NodeAtIn(nds, RChild(NodePos(nd))))
      /\ \A nd \in nds : nd.slot # -1 => nd.hash = Leaf(nd.slot)
      /\ \A i \in 1..PopCount(n) : NodeAtIn(nds, RootPosSeq(n)[i]) = Roots(n, live)[i]
      /\ \A nd \in nds : IsRoot(n, NodePos(nd)) \/ NodeAtIn(nds, Sib(NodePos(nd))) # Empty


\* state constraint for the wide undo configurations: few live leaves in many
\* slots; a denser state is explored only far enough to undo the block that
\* led to it
SparseUndo == \/ Cardinality(live) <= 3
              \/ (stack # <<>> /\ Cardinality(Head(stack).live) <= 3 /\ marks.und = 0)

=============================================================================
