---------------------------- MODULE GeometryBits ----------------------------
(***************************************************************************)
(* Geometry of forest positions for every height up to 63 rows (C16).      *)
(*                                                                         *)
(* TLC integers are 32 bit wide, positions of a 63-row forest are not.     *)
(* A position is therefore the pair (row, bits): `bits' is the offset      *)
(* inside the row written as a bit string of exactly R - row binary digits *)
(* (most significant first), R being the number of rows the forest is      *)
(* allocated for.  In this representation the geometry is string editing:  *)
(*      parent        drop the last digit,           row + 1               *)
(*      left child    append 0,                      row - 1               *)
(*      right child   append 1,                      row - 1               *)
(*      k-th ancestor drop the last k digits,        row + k               *)
(*      k-th (left) descendant   append k zeros,     row - k               *)
(*      re-allocation to R2 rows  pad / strip leading zeros                *)
(* and the numeric value is 2^(R+1) - 2^(R+1-row) + value(bits), the       *)
(* formula of the property text (computed by the harness with 64-bit       *)
(* arithmetic, checked here against Forest's numeric geometry for small R).*)
(*                                                                         *)
(* The module is a state machine whose state is a cursor (R, row, bits)    *)
(* plus a leaf count nb (bit string of R+1 digits); every transition is    *)
(* emitted as one JSON line = one test of the corresponding exported       *)
(* function of the implementation (Parent, LeftChild, RightChild,          *)
(* ParentMany, ChildMany, DetectRow, translatePos, RootPositions,          *)
(* TreeRows, DetectOffset, ProofPositions).                                *)
(*                                                                         *)
(* Two modes: "exh" - every height 0..MaxR, every position, every leaf     *)
(* count, every antichain of targets; "pat" - heights from `Hs' up to 63   *)
(* with boundary patterns (all zero, all one, single digit, alternating)   *)
(* and pseudo-random digit strings derived from Seed.                      *)
(***************************************************************************)
EXTENDS Forest, Json

CONSTANTS Mode,     \* "exh" | "pat"
          MaxR,     \* exh: heights 0..MaxR
          Hs,       \* pat: the heights explored
          Seed,     \* pat: seed of the pseudo-random digit strings
          NRand,    \* pat: number of pseudo-random strings per length
          MaxPP     \* exh: ProofPositions for forests of at most this many leaves

VARIABLES kind,     \* "cursor" (pure geometry) | "forest" (with a leaf count)
          R,        \* rows the forest is allocated for
          row, bits,\* the cursor; row = -1: no cursor (forest-level actions only)
          nb,       \* forest: leaf count as R+1 binary digits, msb first
          steps
vars == <<kind, R, row, bits, nb, steps>>

(***************************************************************************)
(* Digit strings                                                           *)
(***************************************************************************)
Zeros(k)   == [i \in 1..k |-> 0]
Ones(k)    == [i \in 1..k |-> 1]
RECURSIVE ValOf(_)
ValOf(b)   == IF b = <<>> THEN 0 ELSE 2 * ValOf(SubSeq(b, 1, Len(b) - 1)) + b[Len(b)]
RECURSIVE BitsOf(_, _)
BitsOf(v, k) == IF k = 0 THEN <<>> ELSE Append(BitsOf(v \div 2, k - 1), v % 2)
Flip(d)    == 1 - d
AllBits(k) == [1..k -> {0, 1}]
NumOnes(b) == Cardinality({i \in 1..Len(b) : b[i] = 1})
IsZero(b)  == \A i \in 1..Len(b) : b[i] = 0

\* pseudo-random digit (small numbers only: no 32-bit overflow)
RandBit(len, j, i) == (((((Seed % 1000) * 131) + (len * 71) + (j * 1009) + (i * 37) + ((i * i * 7) % 1013)
                        + ((i * j * 3) % 251) + (((Seed + i) * (j + 5)) % 9973)) \div 3) % 2)
Patterns(len) ==
  IF len = 0 THEN {<<>>}
  ELSE {Zeros(len), Ones(len)}
       \cup {[i \in 1..len |-> IF i = p THEN 1 ELSE 0] : p \in {1, 2, (len + 1) \div 2, len - 1, len} \cap (1..len)}
       \cup {[i \in 1..len |-> IF i = p THEN 0 ELSE 1] : p \in {1, (len + 1) \div 2, len} \cap (1..len)}
       \cup {[i \in 1..len |-> IF i = p \/ i = q THEN 1 ELSE 0] :
                  p \in {1, 2} \cap (1..len), q \in {len - 2, len - 1, len} \cap (1..len)}
       \cup {[i \in 1..len |-> IF i = 1 \/ i >= len - 1 THEN 1 ELSE 0]}
       \cup {[i \in 1..len |-> i % 2], [i \in 1..len |-> (i + 1) % 2]}
       \cup {[i \in 1..len |-> RandBit(len, j, i)] : j \in 1..NRand}

(***************************************************************************)
(* Cursor moves                                                            *)
(***************************************************************************)
Cur(r, b)      == [row |-> r, bits |-> b]
UpOf(c)        == Cur(c.row + 1, SubSeq(c.bits, 1, Len(c.bits) - 1))
LeftOf(c)      == Cur(c.row - 1, Append(c.bits, 0))
RightOf(c)     == Cur(c.row - 1, Append(c.bits, 1))
SibOf(c)       == Cur(c.row, [c.bits EXCEPT ![Len(c.bits)] = Flip(@)])
UpManyOf(c, k) == Cur(c.row + k, SubSeq(c.bits, 1, Len(c.bits) - k))
DownManyOf(c, k) == Cur(c.row - k, c.bits \o Zeros(k))
\* the same (row, offset) in a forest allocated for r2 rows
CanRetarget(c, r1, r2) == r2 >= c.row /\ (r2 < r1 => IsZero(SubSeq(c.bits, 1, r1 - r2)))
RetargetOf(c, r1, r2) ==
  IF r2 >= r1 THEN Cur(c.row, Zeros(r2 - r1) \o c.bits)
  ELSE Cur(c.row, SubSeq(c.bits, r1 - r2 + 1, Len(c.bits)))

(***************************************************************************)
(* Forest-level definitions on digit strings.  nb has R+1 digits; digit    *)
(* for 2^h is nb[R+1-h].  Only leaf counts n <= 2^R are used.              *)
(***************************************************************************)
NBit(b, rr, h)   == b[rr + 1 - h]
NValid(b, rr)    == b[1] = 0 \/ IsZero(SubSeq(b, 2, rr + 1))
TreeHeights(b, rr) == {h \in 0..rr : NBit(b, rr, h) = 1}
\* root of the tree of height h: row h, offset = digits of n above h, then 0
RootCur(b, rr, h) == IF h = rr THEN Cur(rr, <<>>)
                     ELSE Cur(h, SubSeq(b, 2, rr - h) \o <<0>>)
RootCurs(b, rr)  == LET hs == SetToSortSeq(TreeHeights(b, rr), LAMBDA x, y : x > y)
                    IN  [i \in 1..Len(hs) |-> RootCur(b, rr, hs[i])]
\* smallest r with n <= 2^r
TreeRowsOf(b, rr) ==
  IF IsZero(b) THEN 0
  ELSE LET top == CHOOSE h \in 0..rr : NBit(b, rr, h) = 1 /\ \A g \in (h+1)..rr : NBit(b, rr, g) = 0
       IN  IF NumOnes(b) = 1 THEN top ELSE top + 1
\* the position inside the tree of height h, `d' rows below its root, reached
\* by the turns `path' (0 = left) from the root
InTree(b, rr, h, path) ==
  LET rc == RootCur(b, rr, h) IN Cur(h - Len(path), rc.bits \o path)
\* the (positional) turns from the root to the cursor, and the selector digits
\* of a niece-pointer descent: every turn but the last is inverted, because a
\* node holds its sibling's children and a root its own
NieceBits(path) == [i \in 1..Len(path) |-> IF i < Len(path) THEN Flip(path[i]) ELSE path[i]]
BiggerTrees(b, rr, h) == Cardinality({g \in TreeHeights(b, rr) : g > h})

\* proof positions of a single target: the siblings of the target and of its
\* ancestors below the root, bottom-up
ProofOfOne(h, c) == [j \in 1..(h - c.row) |-> SibOf(UpManyOf(c, j - 1))]

(***************************************************************************)
(* JSON                                                                    *)
(***************************************************************************)
JCur(c)  == [row |-> c.row, bits |-> c.bits]
JCurs(s) == [i \in 1..Len(s) |-> JCur(s[i])]
Emit(g)  == PrintT("@@" \o ToJson([fam |-> "geom", hist |-> <<>>, step |-> [a |-> "geom"],
                                   expect |-> [n |-> 0, roots |-> <<>>], g |-> g]))
Here     == Cur(row, bits)

(***************************************************************************)
(* Initial states                                                          *)
(***************************************************************************)
InitExhCursor == /\ kind = "cursor" /\ R \in 0..MaxR /\ row \in 0..R /\ bits \in AllBits(R - row)
                 /\ nb = <<>> /\ steps = 0
\* numeric in-forest predicate (small heights only)
InForestNum(rr, r, b, n) == (ValOf(b) + 1) * (2^r) <= n
InitExhForest == /\ kind = "forest" /\ R \in 0..MaxR
                 /\ nb \in {b \in AllBits(R + 1) : NValid(b, R)}
                 /\ \/ row = -1 /\ bits = <<>>
                    \/ /\ R = TreeRowsOf(nb, R)
                       /\ row \in 0..R /\ bits \in AllBits(R - row)
                       /\ InForestNum(R, row, bits, ValOf(nb))
                 /\ steps = 0
InitPatCursor == /\ kind = "cursor" /\ R \in Hs /\ row \in 0..R /\ bits \in Patterns(R - row)
                 /\ nb = <<>> /\ steps = 0
\* in-forest cursors are built constructively: a tree, a depth, a path
PatForestCursors(b, rr) ==
  UNION { UNION { {InTree(b, rr, h, p) : p \in Patterns(d)} : d \in {0, 1, 2, h \div 2, h - 1, h} \cap (0..h) }
          : h \in TreeHeights(b, rr) }
InitPatForest == /\ kind = "forest" /\ R \in Hs
                 /\ nb \in {<<0>> \o p : p \in Patterns(R)} \cup {<<1>> \o Zeros(R)}
                 /\ \/ row = -1 /\ bits = <<>>
                    \/ /\ R = TreeRowsOf(nb, R)
                       /\ \E c \in PatForestCursors(nb, R) : row = c.row /\ bits = c.bits
                 /\ steps = 0
Init == IF Mode = "exh" THEN InitExhCursor \/ InitExhForest ELSE InitPatCursor \/ InitPatForest

(***************************************************************************)
(* Actions.  In "exh" mode the cursor really moves (the whole position     *)
(* graph of every height is explored); in "pat" mode every transition out  *)
(* of an initial state is generated and emitted, the target is not         *)
(* expanded further.                                                       *)
(***************************************************************************)
Budget == IF Mode = "exh" THEN TRUE ELSE steps = 0
Done == steps' = IF Mode = "exh" THEN 0 ELSE 1
Move(c, r2) == /\ row' = c.row /\ bits' = c.bits /\ R' = r2 /\ Done
               /\ UNCHANGED <<kind, nb>>
Stay == UNCHANGED <<kind, R, row, bits, nb>> /\ Done

ManyKs(max) == IF Mode = "exh" THEN 0..max
               ELSE {0, 1, 2, max \div 2, max - 1, max} \cap (0..max)
RetargetRs == IF Mode = "exh" THEN 0..MaxR
              ELSE ({row, row + 1, R - 1, R + 1, 31, 32, 33, 62, 63} \cap (0..63)) \cup Hs

Up    == /\ kind = "cursor" /\ Budget /\ row < R
         /\ Emit([op |-> "up", R |-> R, at |-> JCur(Here), exp |-> JCur(UpOf(Here))])
         /\ Move(UpOf(Here), R)
Left  == /\ kind = "cursor" /\ Budget /\ row > 0
         /\ Emit([op |-> "left", R |-> R, at |-> JCur(Here), exp |-> JCur(LeftOf(Here))])
         /\ Move(LeftOf(Here), R)
Right == /\ kind = "cursor" /\ Budget /\ row > 0
         /\ Emit([op |-> "right", R |-> R, at |-> JCur(Here), exp |-> JCur(RightOf(Here))])
         /\ Move(RightOf(Here), R)
UpMany == /\ kind = "cursor" /\ Budget
          /\ \E k \in ManyKs(R - row) :
               /\ Emit([op |-> "upmany", R |-> R, at |-> JCur(Here), k |-> k, exp |-> JCur(UpManyOf(Here, k))])
               /\ Move(UpManyOf(Here, k), R)
DownMany == /\ kind = "cursor" /\ Budget
            /\ \E k \in ManyKs(row) :
                 /\ Emit([op |-> "downmany", R |-> R, at |-> JCur(Here), k |-> k, exp |-> JCur(DownManyOf(Here, k))])
                 /\ Move(DownManyOf(Here, k), R)
Retarget == /\ kind = "cursor" /\ Budget
            /\ \E r2 \in RetargetRs :
                 /\ CanRetarget(Here, R, r2)
                 /\ Emit([op |-> "retarget", R |-> R, at |-> JCur(Here), r2 |-> r2,
                          exp |-> JCur(RetargetOf(Here, R, r2))])
                 /\ Move(RetargetOf(Here, R, r2), r2)
Detect == /\ kind = "cursor" /\ steps = 0
          /\ Emit([op |-> "detect", R |-> R, at |-> JCur(Here), exp |-> row])
          /\ Stay

RootsAct == /\ kind = "forest" /\ row = -1 /\ steps = 0
            /\ Emit([op |-> "roots", R |-> R, nb |-> nb, exp |-> JCurs(RootCurs(nb, R)),
                     treerows |-> TreeRowsOf(nb, R)])
            /\ Stay

\* the tree the cursor is in: the one whose root is an ancestor-or-self
TreeOfCursor ==
  CHOOSE h \in TreeHeights(nb, R) : h >= row /\ UpManyOf(Here, h - row) = RootCur(nb, R, h)
Offset == /\ kind = "forest" /\ row >= 0 /\ steps = 0
          /\ LET h    == TreeOfCursor
                 path == SubSeq(bits, Len(bits) - (h - row) + 1, Len(bits))
             IN  Emit([op |-> "offset", R |-> R, nb |-> nb, at |-> JCur(Here),
                       tree |-> BiggerTrees(nb, R, h), branch |-> h - row,
                       path |-> path, niece |-> NieceBits(path),
                       root |-> JCur(RootCur(nb, R, h)),
                       proof |-> JCurs(ProofOfOne(h, Here))])
          /\ Stay

(***************************************************************************)
(* ProofPositions for every antichain of in-forest positions of a small    *)
(* forest, from Forest's numeric definitions (exh mode).  The expectation  *)
(* is independent of the number of rows the positions are written in, so   *)
(* the harness asks for it in several allocations.                         *)
(***************************************************************************)
AllPosIn(x) == {p \in UNION {{Pos(r, i) : i \in 0..(2^(TreeRows(x) - r) - 1)} : r \in 0..TreeRows(x)} : InForest(x, p)}
Antichain(T) == \A p, q \in T : ~IsAnc(p, q)
JP(p) == <<p.row, p.idx>>
ProofPosAct ==
  /\ Mode = "exh" /\ kind = "forest" /\ row = -1 /\ steps = 0
  /\ R = TreeRowsOf(nb, R) /\ ValOf(nb) <= MaxPP /\ ValOf(nb) >= 1
  /\ LET x == ValOf(nb) IN
     \E T \in SUBSET AllPosIn(x) :
        /\ T # {} /\ Antichain(T)
        /\ LET ts == SortPos(T) pp == ProofPos(x, T) cs == SortPos(Computable(x, T))
           IN  Emit([op |-> "proofpos", n |-> x, targets |-> [i \in 1..Len(ts) |-> JP(ts[i])],
                     exp |-> [i \in 1..Len(pp) |-> JP(pp[i])],
                     comp |-> [i \in 1..Len(cs) |-> JP(cs[i])]])
  /\ Stay

Next == Up \/ Left \/ Right \/ UpMany \/ DownMany \/ Retarget \/ Detect \/ RootsAct \/ Offset \/ ProofPosAct
Spec == Init /\ [][Next]_vars
View == vars

(***************************************************************************)
(* Laws of the geometry (invariants; a failure is a defect of this         *)
(* specification, never of the code).                                      *)
(***************************************************************************)
TypeOK == /\ kind \in {"cursor", "forest"} /\ R \in 0..63
          /\ (row >= 0 => Len(bits) = R - row)
          /\ (kind = "forest" => Len(nb) = R + 1 /\ NValid(nb, R))

InverseLaws ==
  (kind = "cursor") =>
    LET c == Here IN
    /\ (row > 0 => UpOf(LeftOf(c)) = c /\ UpOf(RightOf(c)) = c /\ SibOf(LeftOf(c)) = RightOf(c))
    /\ (row < R => (LeftOf(UpOf(c)) = c \/ RightOf(UpOf(c)) = c) /\ UpOf(SibOf(c)) = UpOf(c))
    /\ \A k \in ManyKs(row) : UpManyOf(DownManyOf(c, k), k) = c
    /\ \A k \in ManyKs(R - row) : UpManyOf(c, k).row = row + k
    /\ (row < R => UpManyOf(c, 1) = UpOf(c))
    /\ (row > 0 => DownManyOf(c, 1) = LeftOf(c))
    /\ \A r2 \in RetargetRs : CanRetarget(c, R, r2) =>
          /\ CanRetarget(RetargetOf(c, R, r2), r2, R)
          /\ RetargetOf(RetargetOf(c, R, r2), r2, R) = c
          /\ RetargetOf(c, R, r2).row = row

\* the digit-string geometry is Forest's numeric geometry (small heights)
AgreesWithForest ==
  (Mode = "exh" /\ row >= 0) =>
    LET c == Here  P(d) == Pos(d.row, ValOf(d.bits)) IN
    /\ (row < R => Par(P(c)) = P(UpOf(c)) /\ Sib(P(c)) = P(SibOf(c)))
    /\ (row > 0 => LChild(P(c)) = P(LeftOf(c)) /\ RChild(P(c)) = P(RightOf(c)))
    /\ BitsOf(ValOf(bits), Len(bits)) = bits
    /\ (kind = "forest" =>
          LET x == ValOf(nb) IN
          /\ TreeRowsOf(nb, R) = TreeRows(x)
          /\ Heights(x) = TreeHeights(nb, R)
          /\ \A h \in Heights(x) : P(RootCur(nb, R, h)) = RootPos(x, h)
          /\ InForest(x, P(c))
          /\ RootAbove(x, P(c)) = P(RootCur(nb, R, TreeOfCursor))
          /\ TreeIndexOf(x, P(c)) = BiggerTrees(nb, R, TreeOfCursor) + 1
          /\ {P(ProofOfOne(TreeOfCursor, c)[j]) : j \in 1..(TreeOfCursor - row)} = ProofPosSet(x, {P(c)}))

\* every in-forest position is reachable constructively (tree, path) - the
\* way the pattern mode builds its cursors
ConstructiveOK ==
  (Mode = "exh" /\ kind = "forest" /\ row >= 0) =>
    \E h \in {g \in TreeHeights(nb, R) : g >= row} : \E p \in AllBits(h - row) : InTree(nb, R, h, p) = Here

=============================================================================
