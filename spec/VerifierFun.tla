---------------------------- MODULE VerifierFun ----------------------------
(***************************************************************************)
(* The verification algorithm as a function (design-level model for C02,   *)
(* C03, C05), over the free term algebra of hashes.                        *)
(*                                                                         *)
(* Input: a verifier state (leaf count x and the root list), claimed       *)
(* hashes hs with claimed positions tg, and proof hashes pf.  The          *)
(* algorithm sorts the claims by position and works through a list of      *)
(* (position, hash) pairs in position order (row by row, left to right):   *)
(* a pair at a root position becomes a root candidate; otherwise its       *)
(* sibling's hash is the next pair if that is the sibling, else the next   *)
(* proof hash, and the parent pair is inserted into the list.  It rejects  *)
(* mismatched lengths, positions outside the forest, a position given      *)
(* twice, a claim at a position that is also computed (nested claims), an  *)
(* exhausted proof and an all-zero proof hash, and finally requires every  *)
(* candidate to equal the root of the tree it was computed in.  Unused     *)
(* trailing proof hashes are ignored.                                      *)
(*                                                                         *)
(* Theorems checked by TLC for every state (x, lv) within the bound and    *)
(* every input over the adversary's alphabet:                              *)
(*   SoundOK     accept  =>  every claim is true (ClaimsTrue of Forest)    *)
(*   CompleteOK  the canonical proof of every set of live leaves is        *)
(*               accepted, in every request order                          *)
(*   MinimalOK   the canonical proof minus any one hash is rejected        *)
(*   DelOK       applying the deletion with an accepted proof whose        *)
(*               targets are live leaves yields Roots(x, lv \ D) (C05)     *)
(* The variants below re-introduce, one at a time, the four acceptance     *)
(* defects that were found in the implementation and repaired; TLC must    *)
(* find SoundOK violated for each (negative demonstrations: the model is   *)
(* sharp enough to see them).                                              *)
(***************************************************************************)
EXTENDS Forest

CONSTANTS MaxN,        \* states: x \in 0..MaxN, every live set
          MaxClaim,    \* claims per input
          MaxProof,    \* proof hashes per input
          NJunk,       \* fresh hashes in the alphabet
          Variant      \* "fixed" | "zero" | "dup" | "nested" | "anyroot"

VARIABLES n, live
vars == <<n, live>>

Init == n \in 0..MaxN /\ live \in SUBSET (0..(n-1))
Next == UNCHANGED vars
Spec == Init /\ [][Next]_vars

(***************************************************************************)
(* The algorithm                                                           *)
(***************************************************************************)
Pair(p, h) == [pos |-> p, hash |-> h]
PairLess(a, b) == PosLess(a.pos, b.pos)

RECURSIVE InsertSorted(_, _)
InsertSorted(s, e) ==
  IF s = <<>> THEN <<e>>
  ELSE IF PosLess(e.pos, Head(s).pos) THEN <<e>> \o s
  ELSE <<Head(s)>> \o InsertSorted(Tail(s), e)

NextHash(p, h, sib) ==
  IF h = Empty THEN sib
  ELSE IF sib = Empty THEN h
  ELSE IF IsLeft(p) THEN H(h, sib) ELSE H(sib, h)

Reject == [ok |-> FALSE, cands |-> <<>>, used |-> 0, seen |-> <<>>]

\* work: pairs sorted by position; pf: the proof; k: proof hashes used so far
\* seen: every pair processed (claims, computed ancestors, roots), in position order
RECURSIVE RunS(_, _, _, _, _, _)
RunS(x, work, pf, k, cands, seen) ==
  IF work = <<>> THEN [ok |-> TRUE, cands |-> cands, used |-> k, seen |-> seen]
  ELSE LET cur  == Head(work)
           rest == Tail(work)
       IN
       \* the same position twice: a duplicated claim, or a claim at a computed position
       IF Variant \notin {"dup", "nested"} /\ rest # <<>> /\ Head(rest).pos = cur.pos THEN Reject
       ELSE IF IsRoot(x, cur.pos) THEN RunS(x, rest, pf, k, Append(cands, cur), Append(seen, cur))
       ELSE LET sibHere == rest # <<>> /\ Head(rest).pos = Sib(cur.pos)
                \* (defective variants: a pair at the same position is taken for the sibling of an odd position)
                sameAsSib == Variant \in {"dup", "nested"} /\ rest # <<>> /\ Head(rest).pos = cur.pos /\ ~IsLeft(cur.pos)
            IN IF sibHere \/ sameAsSib
               THEN RunS(x, InsertSorted(Tail(rest), Pair(Par(cur.pos), NextHash(cur.pos, cur.hash, Head(rest).hash))),
                         pf, k, cands, seen \o <<cur, Head(rest)>>)
               ELSE IF k >= Len(pf) THEN Reject
               ELSE IF Variant # "zero" /\ pf[k + 1] = Empty THEN Reject
               ELSE RunS(x, InsertSorted(rest, Pair(Par(cur.pos), NextHash(cur.pos, cur.hash, pf[k + 1]))),
                         pf, k + 1, cands, Append(seen, cur))

Run(x, work, pf, k, cands) == RunS(x, work, pf, k, cands, <<>>)

SortedClaims(hs, tg) ==
  SetToSortSeq({<<i, Pair(tg[i], hs[i])>> : i \in 1..Len(hs)},
               LAMBDA a, b : PosLess(a[2].pos, b[2].pos) \/ (a[2].pos = b[2].pos /\ a[1] < b[1]))

Calc(x, hs, tg, pf) ==
  IF Len(hs) # Len(tg) THEN Reject
  ELSE IF \E i \in 1..Len(tg) : ~InForest(x, tg[i]) THEN Reject
  ELSE LET sc == SortedClaims(hs, tg)
       IN  Run(x, [i \in 1..Len(sc) |-> sc[i][2]], pf, 0, <<>>)

\* every candidate is the root of the tree it was computed in
CandsOK(x, roots, cands) ==
  IF Variant = "anyroot"
  THEN \A i \in 1..Len(cands) : \E j \in 1..Len(roots) : roots[j] = cands[i].hash
  ELSE \A i \in 1..Len(cands) : roots[TreeIndexOf(x, cands[i].pos)] = cands[i].hash

Accepts(x, roots, hs, tg, pf) ==
  LET r == Calc(x, hs, tg, pf) IN r.ok /\ CandsOK(x, roots, r.cands)

\* the roots after deleting the (accepted) targets: the same walk with empty hashes
DelRoots(x, roots, tg, pf) ==
  LET r == Calc(x, [i \in 1..Len(tg) |-> Empty], tg, pf)
  IN  [j \in 1..Len(roots) |->
         IF \E i \in 1..Len(r.cands) : TreeIndexOf(x, r.cands[i].pos) = j
         THEN (CHOOSE c \in {r.cands[i] : i \in 1..Len(r.cands)} : TreeIndexOf(x, c.pos) = j).hash
         ELSE roots[j]]

(***************************************************************************)
(* The adversary's domain (as in Adversary.tla)                            *)
(***************************************************************************)
AllPositions(x) == LET R == TreeRows(x)
                   IN  UNION {{Pos(r, i) : i \in 0..(2^(R - r) - 1)} : r \in 0..R}
ClaimAlphabet(x, lv) == {nd.hash : nd \in Nodes(x, lv)} \cup {Junk(j) : j \in 1..NJunk}
ProofAlphabet(x, lv) == ClaimAlphabet(x, lv) \cup {Empty}
SeqsUpTo(S, k) == UNION {[1..m -> S] : m \in 0..k}

SoundOK ==
  LET roots == Roots(n, live) IN
  \A m \in 1..MaxClaim :
    \A hs \in [1..m -> ClaimAlphabet(n, live)], tg \in [1..m -> AllPositions(n)] :
      \A pf \in SeqsUpTo(ProofAlphabet(n, live), MaxProof) :
         Accepts(n, roots, hs, tg, pf) => ClaimsTrue(n, live, hs, tg)

AscSeq(S) == SetToSortSeq(S, <)
OrdersOf(S) == IF Cardinality(S) <= 3 THEN SetToSeqs(S) ELSE {AscSeq(S), Reverse(AscSeq(S))}

CompleteOK ==
  LET roots == Roots(n, live) IN
  \A S \in SUBSET live \ {{}} : \A ord \in OrdersOf(S) :
     LET cp == CanonProof(n, live, ord)
         hs == [i \in 1..Len(ord) |-> Leaf(ord[i])]
     IN  /\ Accepts(n, roots, hs, cp.t, cp.p)
         /\ Calc(n, hs, cp.t, cp.p).used = Len(cp.p)
         \* trailing unused hashes do not matter
         /\ Accepts(n, roots, hs, cp.t, cp.p \o <<Junk(1)>>)

MinimalOK ==
  LET roots == Roots(n, live) IN
  \A S \in SUBSET live \ {{}} :
     LET ord == AscSeq(S)
         cp  == CanonProof(n, live, ord)
         hs  == [i \in 1..Len(ord) |-> Leaf(ord[i])]
     IN  \A j \in 1..Len(cp.p) :
            ~Accepts(n, roots, hs, cp.t, SubSeq(cp.p, 1, j - 1) \o SubSeq(cp.p, j + 1, Len(cp.p)))

DelOK ==
  LET roots == Roots(n, live) IN
  \A S \in SUBSET live \ {{}} : \A ord \in OrdersOf(S) :
     LET cp == CanonProof(n, live, ord)
     IN  DelRoots(n, roots, cp.t, cp.p) = Roots(n, live \ S)
=============================================================================
