------------------------------ MODULE ProofOps ------------------------------
(***************************************************************************)
(* Proof combination (AddProof), restriction (GetProofSubset) and          *)
(* completion (GetMissingPositions, MapPollard.GetMissingPositions +       *)
(* VerifyPartialProof) - property C14.                                     *)
(*                                                                         *)
(* These operations are functions of an accumulator state and of proofs of *)
(* that state, so the module has no state-changing action: every abstract  *)
(* state (n, live) within the bounds is an initial state, and each action  *)
(* is one call with its expected result, emitted as a JSON line.           *)
(***************************************************************************)
EXTENDS Forest, Json

CONSTANTS MaxN, Acts, MaxPerm,
          MinN,     \* states: MinN <= n <= MaxN
          MaxReq    \* at most this many leaves per request set (wide configurations)

VARIABLES n, live
vars == <<n, live>>

JPos(p)    == <<p.row, p.idx>>
JPosSeq(s) == [i \in 1..Len(s) |-> JPos(s[i])]
JProof(pr) == [t |-> JPosSeq(pr.t), p |-> pr.p]
AscSeq(S)  == SetToSortSeq(S, <)

Emit(step, expect) ==
  PrintT("@@" \o ToJson([fam |-> "ops", hist |-> <<>>, step |-> step, expect |-> expect]))

Orders(S) ==
  IF Cardinality(S) <= MaxPerm THEN SetToSeqs(S)
  ELSE LET a == AscSeq(S) IN {a, Reverse(a), Tail(a) \o <<Head(a)>>}
TwoOrders(S) == LET a == AscSeq(S) IN {a, Reverse(a)}

Init == n \in MinN..MaxN /\ live \in SUBSET (0..(n-1))
Small(S) == Cardinality(S) <= MaxReq

Base == [n |-> n, roots |-> Roots(n, live)]

PosSet(nds, S) == {PosOfIn(nds, s) : s \in S}

(***************************************************************************)
(* AddProof(A, B): the canonical proof of the union.  The returned hashes  *)
(* and targets are compared as a set of (leaf, position) pairs, the proof  *)
(* hashes as a sequence.                                                   *)
(***************************************************************************)
AddProofAct ==
  /\ "addproof" \in Acts
  /\ \E A \in SUBSET live \ {{}}, B \in SUBSET live \ {{}} :
       /\ Small(A) /\ Small(B)
       /\ \E oa \in TwoOrders(A), ob \in TwoOrders(B) :
          LET nds  == Nodes(n, live)
              u    == AscSeq(A \cup B)
              step == [a |-> "addproof", as |-> oa, b |-> ob, n |-> n, roots |-> Roots(n, live),
                       pfa |-> JProof(CanonProofIn(n, nds, oa)),
                       pfb |-> JProof(CanonProofIn(n, nds, ob))]
          IN  /\ UNCHANGED vars
              /\ Emit(step, Base @@ [held |-> u, pf |-> JProof(CanonProofIn(n, nds, u))])

(***************************************************************************)
(* GetProofSubset(proof of S, wants W): the canonical proof of W with      *)
(* hashes and targets in the order of the wants; an error exactly when a   *)
(* wanted position is not a target of the proof.                           *)
(***************************************************************************)
SubsetAct ==
  /\ "subset" \in Acts
  /\ \E S \in SUBSET live \ {{}} :
       \E os \in TwoOrders(S) :
          \E W \in SUBSET live \ {{}} :
             /\ Small(S) /\ Small(W)
             /\ Cardinality(W \ S) <= 1
             /\ \E ow \in Orders(W) :
                  LET nds  == Nodes(n, live)
                      step == [a |-> "subset", s |-> os, w |-> ow, n |-> n, roots |-> Roots(n, live),
                               pf |-> JProof(CanonProofIn(n, nds, os)),
                               \* the wanted positions, in request order
                               pfb |-> JProof(CanonProofIn(n, nds, ow))]
                  IN  /\ UNCHANGED vars
                      /\ Emit(step, Base @@ [err |-> ~(W \subseteq S), held |-> ow,
                                             pf |-> JProof(CanonProofIn(n, nds, ow))])

(***************************************************************************)
(* Missing positions.  Holding a proof of A, the positions still needed to *)
(* prove B are the proof positions of B \ A that are neither targets of A, *)
(* proof positions of A nor computable from A.  A partial map forest that  *)
(* started from the bare roots and ingested the proof of A stores exactly  *)
(* the roots, the targets A, their proof positions and their ancestors.    *)
(***************************************************************************)
MissingFn(x, nds, A, B) ==
  LET ta == PosSet(nds, A)
      tb == PosSet(nds, B \ A)
  IN  ProofPosSet(x, tb) \ (ta \cup ProofPosSet(x, ta) \cup Anc(x, ta))

MissingMap(x, nds, A, B) ==
  LET ta == PosSet(nds, A)
      tb == PosSet(nds, B)
      rt == {RootPos(x, h) : h \in Heights(x)}
  IN  ProofPosSet(x, tb) \ (rt \cup ta \cup ProofPosSet(x, ta) \cup Anc(x, ta))

MissingAct ==
  /\ "missing" \in Acts
  /\ \E A \in SUBSET live, B \in SUBSET live \ {{}} :
       /\ Small(A) /\ Small(B)
       /\ \E oa \in TwoOrders(A), ob \in TwoOrders(B) :
          LET nds  == Nodes(n, live)
              mf   == SortPos(MissingFn(n, nds, A, B))
              mm   == SortPos(MissingMap(n, nds, A, B))
              step == [a |-> "missing", as |-> oa, b |-> ob, n |-> n, roots |-> Roots(n, live),
                       pfa |-> JProof(CanonProofIn(n, nds, oa)),
                       pfb |-> JProof(CanonProofIn(n, nds, ob))]
          IN  /\ UNCHANGED vars
              /\ Emit(step, Base @@ [miss  |-> JPosSeq(mf),
                                     missm |-> JPosSeq(mm),
                                     hs    |-> [i \in 1..Len(mm) |-> NodeAtIn(nds, mm[i])]])

Next == AddProofAct \/ SubsetAct \/ MissingAct
Spec == Init /\ [][Next]_vars

(***************************************************************************)
(* Design-level theorems (checked on every state)                          *)
(***************************************************************************)
\* the proof of a union needs nothing beyond what the two proofs hold or
\* what can be computed from them
UnionSufficient ==
  \A A \in SUBSET live \ {{}}, B \in SUBSET live \ {{}} :
     LET nds == Nodes(n, live)
         ta  == PosSet(nds, A)
         tb  == PosSet(nds, B)
     IN  ProofPosSet(n, ta \cup tb) \subseteq (ProofPosSet(n, ta) \cup ProofPosSet(n, tb))

\* every missing position is necessary (it is a canonical proof position of
\* B \ A) and together with what is held they are sufficient
MissingExact ==
  \A A \in SUBSET live, B \in SUBSET live \ {{}} :
     LET nds == Nodes(n, live)
         ta  == PosSet(nds, A)
         tb  == PosSet(nds, B \ A)
         m   == MissingFn(n, nds, A, B)
     IN  /\ m \subseteq ProofPosSet(n, tb)
         /\ ProofPosSet(n, tb) \subseteq (m \cup ta \cup ProofPosSet(n, ta) \cup Anc(n, ta))
         /\ \A p \in m : NodeAtIn(nds, p) # Empty

=============================================================================
