---------------------------- MODULE VerifierLoop ----------------------------
(***************************************************************************)
(* The control skeleton of the hash calculation shared by every verifier   *)
(* (property C04: verifiers are total on untrusted input).  Hashes do not  *)
(* matter for termination and are left out; what is modelled is the        *)
(* cursor: a queue of positions to process (the claimed targets, then the  *)
(* parents computed on the way), the row counter - an 8-bit-style counter  *)
(* that wraps around (scaled down to Wrap values) - and the inner loop     *)
(* that advances the row until the position fits under the largest         *)
(* position of that row.  Targets come from the whole untrusted domain:    *)
(* every number up to a few beyond the geometry, and a token Huge standing *)
(* for the 64-bit values (2^32, 2^63, 2^64-1) that are larger than every   *)
(* position of every row.                                                  *)
(*                                                                         *)
(* Bounded = TRUE : the inner loop gives up when the row counter passes    *)
(*                  the top row (the code as repaired).  TLC checks         *)
(*                  Termination under weak fairness for every input.       *)
(* Bounded = FALSE: the inner loop as originally found - the error of the  *)
(*                  row bound computation is ignored and the counter       *)
(*                  wraps: TLC exhibits the lasso (negative demonstration; *)
(*                  this is defect C04-X1, repaired in the code).          *)
(***************************************************************************)
EXTENDS Integers, Sequences, FiniteSets, TLC

CONSTANTS MaxN,      \* leaf counts 1..MaxN
          MaxTargets,
          Wrap,      \* the row counter counts modulo Wrap (Wrap > rows + 1)
          Bounded

Huge == 100000

TreeRows(x) == IF x <= 1 THEN 0 ELSE CHOOSE r \in 1..10 : 2^(r-1) < x /\ x <= 2^r
RowStart(r, R) == 2^(R+1) - 2^(R+1-r)
\* largest position of row r that is covered by x leaves (0 when r is beyond the top row: the
\* implementation's helper returns an error there, which the original loop ignored)
MaxPosAtRow(r, R, x) == IF r > R THEN 0
                        ELSE LET m == RowStart(r, R) + (x \div (2^r)) IN IF m = 0 THEN 0 ELSE m - 1
Bit(x, h) == (x \div (2^h)) % 2 = 1
IsRootOnRow(p, x, r, R) == r <= R /\ Bit(x, r) /\ p = RowStart(r, R) + 2 * (x \div (2^(r+1)))
ParentOf(p, R) == IF p = Huge THEN Huge ELSE (p \div 2) + 2^R

VARIABLES x, queue, row, cur, pc, steps
vars == <<x, queue, row, cur, pc, steps>>

Domain(R) == (0..(2^(R+1) + 1)) \cup {Huge}

RECURSIVE InsertSorted(_, _)
InsertSorted(s, e) == IF s = <<>> THEN <<e>>
                      ELSE IF e <= Head(s) THEN <<e>> \o s ELSE <<Head(s)>> \o InsertSorted(Tail(s), e)
RECURSIVE SortSet(_)
SortSet(S) == IF S = {} THEN <<>> ELSE LET m == CHOOSE a \in S : \A b \in S : a <= b IN <<m>> \o SortSet(S \ {m})

Init == /\ x \in 1..MaxN
        /\ \E T \in SUBSET Domain(TreeRows(x)) : Cardinality(T) \in 1..MaxTargets /\ queue = SortSet(T)
        /\ row = 0 /\ cur = -1 /\ pc = "outer" /\ steps = 0

R == TreeRows(x)

\* take the next position off the queue
Outer == /\ pc = "outer"
         /\ IF queue = <<>> \/ row > R THEN pc' = "done" /\ UNCHANGED <<queue, cur>>
            ELSE cur' = Head(queue) /\ queue' = Tail(queue) /\ pc' = "inner"
         /\ UNCHANGED <<x, row>> /\ steps' = steps + 1

\* advance the row until the position fits
Inner == /\ pc = "inner"
         /\ IF cur > MaxPosAtRow(row, R, x)
            THEN IF Bounded /\ row + 1 > R
                 THEN pc' = "err" /\ UNCHANGED row
                 ELSE row' = (row + 1) % Wrap /\ UNCHANGED pc
            ELSE pc' = "body" /\ UNCHANGED row
         /\ UNCHANGED <<x, queue, cur>> /\ steps' = steps + 1

\* a root ends the branch; otherwise the parent is queued (the sibling comes from the queue or
\* from the proof; a missing proof hash is an error exit)
Body == /\ pc = "body"
        /\ IF IsRootOnRow(cur, x, row, R) THEN pc' = "outer" /\ UNCHANGED queue
           ELSE \/ pc' = "err" /\ UNCHANGED queue                               \* proof too short
                \/ /\ pc' = "outer"
                   /\ LET q == IF queue # <<>> /\ Head(queue) = cur + 1 /\ cur % 2 = 0 THEN Tail(queue) ELSE queue
                      IN  queue' = InsertSorted(q, ParentOf(cur, R))
        /\ UNCHANGED <<x, row, cur>> /\ steps' = steps + 1

Next == Outer \/ Inner \/ Body
Spec == Init /\ [][Next]_vars /\ WF_vars(Next)

TypeOK == row \in 0..(Wrap - 1) /\ pc \in {"outer", "inner", "body", "done", "err"}
Termination == <>(pc \in {"done", "err"})
\* and it terminates fast: the number of steps is bounded by a small polynomial in the input size
StepBound == steps <= 4 * (MaxTargets + 1) * (TreeRows(MaxN) + 2) + 4
=============================================================================
