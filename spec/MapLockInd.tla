---------------------------- MODULE MapLockInd ----------------------------
(***************************************************************************)
(* Inductive invariant for the lock protocol of MapLock.tla, checked with  *)
(* Apalache for an UNBOUNDED number of blocks and queries (C12, lock       *)
(* discipline => AtomicBlocks).  The protocol is restated here with type   *)
(* annotations and without the bounds NBlocks / MaxCalls and without the   *)
(* emission actions; query kinds all take the lock (the configuration of   *)
(* the code as repaired).  Two obligations: Init => IndInv (length 0) and   *)
(* IndInv /\ Next => IndInv' (length 1 from IndInit).  With Disciplined =   *)
(* FALSE the second obligation fails (negative demonstration).             *)
(***************************************************************************)
EXTENDS Integers, FiniteSets

CONSTANTS
  \* @type: Set(Str);
  Readers,
  \* @type: Int;
  NSites,
  \* @type: Bool;
  Disciplined    \* FALSE: a reader acquires the read lock without regard to the writer (negative demonstration)

VARIABLES
  \* @type: Int;
  block,
  \* @type: Int;
  site,
  \* @type: Int;
  started,
  \* @type: Str;
  wpc,
  \* @type: Bool;
  wlock,
  \* @type: Bool;
  wwait,
  \* @type: Set(Str);
  rlock,
  \* @type: Str -> Str;
  rpc,
  \* @type: Str -> Int;
  c0,
  \* @type: Str -> Int;
  resb,
  \* @type: Str -> Int;
  ress,
  \* @type: Str -> Int;
  s1

CInit    == Readers = {"r1", "r2", "r3"} /\ NSites = 3 /\ Disciplined = TRUE
CInitBad == Readers = {"r1", "r2", "r3"} /\ NSites = 3 /\ Disciplined = FALSE

Init == /\ block = 0 /\ site = 0 /\ started = 0
        /\ wpc = "idle" /\ wlock = FALSE /\ wwait = FALSE /\ rlock = {}
        /\ rpc = [r \in Readers |-> "idle"]
        /\ c0 = [r \in Readers |-> 0] /\ resb = [r \in Readers |-> 0]
        /\ ress = [r \in Readers |-> 0] /\ s1 = [r \in Readers |-> 0]

WBegin   == /\ wpc = "idle"
            /\ wpc' = "wait" /\ wwait' = TRUE /\ started' = started + 1
            /\ UNCHANGED <<block, site, wlock, rlock, rpc, c0, resb, ress, s1>>
WAcquire == /\ wpc = "wait" /\ rlock = {} /\ ~wlock
            /\ wlock' = TRUE /\ wwait' = FALSE /\ wpc' = "in"
            /\ UNCHANGED <<block, site, started, rlock, rpc, c0, resb, ress, s1>>
WStep    == /\ wpc = "in" /\ site < NSites
            /\ site' = site + 1
            /\ UNCHANGED <<block, started, wpc, wlock, wwait, rlock, rpc, c0, resb, ress, s1>>
WRelease == /\ wpc = "in" /\ site = NSites
            /\ block' = block + 1 /\ site' = 0 /\ wlock' = FALSE /\ wpc' = "idle"
            /\ UNCHANGED <<started, wwait, rlock, rpc, c0, resb, ress, s1>>

RCall(r) == /\ rpc[r] = "idle"
            /\ rpc' = [rpc EXCEPT ![r] = "wait"]
            /\ c0' = [c0 EXCEPT ![r] = block]
            /\ UNCHANGED <<block, site, started, wpc, wlock, wwait, rlock, resb, ress, s1>>
RAcquire(r) == /\ rpc[r] = "wait" /\ (Disciplined => ~wlock /\ ~wwait)
               /\ rlock' = rlock \union {r} /\ rpc' = [rpc EXCEPT ![r] = "in"]
               /\ UNCHANGED <<block, site, started, wpc, wlock, wwait, c0, resb, ress, s1>>
RRead(r) == /\ rpc[r] = "in"
            /\ resb' = [resb EXCEPT ![r] = block]
            /\ ress' = [ress EXCEPT ![r] = site]
            /\ s1' = [s1 EXCEPT ![r] = started]
            /\ rlock' = rlock \ {r}
            /\ rpc' = [rpc EXCEPT ![r] = "ret"]
            /\ UNCHANGED <<block, site, started, wpc, wlock, wwait, c0>>
RDone(r) == /\ rpc[r] = "ret" /\ rpc' = [rpc EXCEPT ![r] = "idle"]
            /\ UNCHANGED <<block, site, started, wpc, wlock, wwait, rlock, c0, resb, ress, s1>>

Next == WBegin \/ WAcquire \/ WStep \/ WRelease
        \/ (\E r \in Readers : RCall(r) \/ RAcquire(r) \/ RRead(r) \/ RDone(r))

AtomicBlocks ==
  \A r \in Readers : rpc[r] = "ret" =>
     /\ ress[r] = 0
     /\ c0[r] <= resb[r] /\ resb[r] <= s1[r]

\* the inductive invariant
IndInv ==
  /\ block >= 0 /\ site >= 0 /\ site <= NSites
  /\ wpc \in {"idle", "wait", "in"}
  /\ rpc \in [Readers -> {"idle", "wait", "in", "ret"}]
  /\ rlock \subseteq Readers
  /\ c0 \in [Readers -> Int] /\ resb \in [Readers -> Int] /\ ress \in [Readers -> Int] /\ s1 \in [Readers -> Int]
  \* writer bookkeeping
  /\ (wpc = "idle" => started = block /\ ~wlock /\ ~wwait /\ site = 0)
  /\ (wpc = "wait" => started = block + 1 /\ ~wlock /\ wwait /\ site = 0)
  /\ (wpc = "in"   => started = block + 1 /\ wlock /\ ~wwait)
  \* lock discipline
  /\ (wlock => rlock = {})
  /\ \A r \in Readers : (rpc[r] = "in") <=> (r \in rlock)
  \* call windows
  /\ \A r \in Readers : rpc[r] \in {"wait", "in"} => c0[r] <= block
  /\ AtomicBlocks

IndInit ==
  /\ block \in Int /\ site \in 0..NSites /\ started \in Int
  /\ wpc \in {"idle", "wait", "in"} /\ wlock \in BOOLEAN /\ wwait \in BOOLEAN
  /\ rlock \in SUBSET Readers
  /\ rpc \in [Readers -> {"idle", "wait", "in", "ret"}]
  /\ c0 \in [Readers -> Int] /\ resb \in [Readers -> Int] /\ ress \in [Readers -> Int] /\ s1 \in [Readers -> Int]
  /\ IndInv
=============================================================================
