------------------------------ MODULE MapLock ------------------------------
(***************************************************************************)
(* Concurrency of the map forest (property C12).                           *)
(*                                                                         *)
(* One writer applies blocks (Modify, Undo, Ingest, Prune, Verify with     *)
(* remembering, Read); each block is a critical section that passes        *)
(* through NSites interior points at which the forest is half-applied.     *)
(* Readers issue queries.  The lock is Go's sync.RWMutex: any number of    *)
(* readers or one writer; a waiting writer blocks new readers (writer      *)
(* preference).  Query kinds listed in UnlockedKinds read the state        *)
(* without taking the lock.                                                *)
(*                                                                         *)
(* The abstract state of the forest is the pair <<block, site>>: `block'   *)
(* whole blocks have been applied, and site = 0 between blocks or the      *)
(* interior point the writer has reached.  A query returns the pair it     *)
(* observed.  AtomicBlocks: every returned pair has site = 0 and its block *)
(* lies between the number of blocks committed when the call started and   *)
(* the number started when it returned - the query saw a whole-block state *)
(* that was current at some instant during the call.                       *)
(*                                                                         *)
(* TLC checks, over all interleavings: AtomicBlocks, absence of deadlock,  *)
(* and writer progress.  With UnlockedKinds non-empty AtomicBlocks is      *)
(* violated (negative demonstration: this is what an unlocked getter does).*)
(*                                                                         *)
(* The schedules replayed on the real code are the reachable states of     *)
(* this model in which the writer is suspended at an interior point while  *)
(* a set of queries is issued (action Snapshot emits them).                *)
(***************************************************************************)
EXTENDS Integers, Sequences, FiniteSets, SequencesExt, TLC, Json

CONSTANTS Readers,        \* set of reader ids
          NBlocks,        \* blocks the writer applies
          NSites,         \* interior points of a critical section
          Kinds,          \* query kinds
          UnlockedKinds,  \* kinds that do not take the lock
          MaxCalls,       \* queries per reader
          EmitSchedules   \* TRUE: print the schedules (suspension point, pending queries)

VARIABLES block, site,     \* the forest: whole blocks applied, interior point (0 = none)
          started,         \* blocks the writer has begun
          wpc,             \* writer: "idle" | "wait" | "in" | "done"
          wlock,           \* writer holds the lock
          wwait,           \* writer is waiting for the lock
          rlock,           \* readers holding the read lock
          rpc,             \* reader -> "idle" | "wait" | "in" | "ret"
          kind,            \* reader -> kind of the current query
          c0,              \* reader -> blocks committed when the call started
          res,             \* reader -> observed <<block, site>>
          s1,              \* reader -> blocks started when the call returned
          ncalls           \* reader -> queries issued
vars == <<block, site, started, wpc, wlock, wwait, rlock, rpc, kind, c0, res, s1, ncalls>>

Init == /\ block = 0 /\ site = 0 /\ started = 0
        /\ wpc = "idle" /\ wlock = FALSE /\ wwait = FALSE /\ rlock = {}
        /\ rpc = [r \in Readers |-> "idle"]
        /\ kind = [r \in Readers |-> CHOOSE k \in Kinds : TRUE]
        /\ c0 = [r \in Readers |-> 0] /\ res = [r \in Readers |-> <<0, 0>>]
        /\ s1 = [r \in Readers |-> 0] /\ ncalls = [r \in Readers |-> 0]

(***************************************************************************)
(* Writer                                                                  *)
(***************************************************************************)
WBegin   == /\ wpc = "idle" /\ block < NBlocks
            /\ wpc' = "wait" /\ wwait' = TRUE /\ started' = started + 1
            /\ UNCHANGED <<block, site, wlock, rlock, rpc, kind, c0, res, s1, ncalls>>
WAcquire == /\ wpc = "wait" /\ rlock = {} /\ ~wlock
            /\ wlock' = TRUE /\ wwait' = FALSE /\ wpc' = "in"
            /\ UNCHANGED <<block, site, started, rlock, rpc, kind, c0, res, s1, ncalls>>
\* the critical section advances through its interior points
WStep    == /\ wpc = "in" /\ site < NSites
            /\ site' = site + 1
            /\ UNCHANGED <<block, started, wpc, wlock, wwait, rlock, rpc, kind, c0, res, s1, ncalls>>
\* the last statement of the section completes the block; then the lock is released
WRelease == /\ wpc = "in" /\ site = NSites
            /\ block' = block + 1 /\ site' = 0 /\ wlock' = FALSE
            /\ wpc' = IF block + 1 = NBlocks THEN "done" ELSE "idle"
            /\ UNCHANGED <<started, wwait, rlock, rpc, kind, c0, res, s1, ncalls>>

(***************************************************************************)
(* Readers                                                                 *)
(***************************************************************************)
RCall(r) == /\ rpc[r] = "idle" /\ ncalls[r] < MaxCalls
            /\ \E k \in Kinds :
                 /\ kind' = [kind EXCEPT ![r] = k]
                 /\ rpc' = [rpc EXCEPT ![r] = IF k \in UnlockedKinds THEN "in" ELSE "wait"]
            /\ c0' = [c0 EXCEPT ![r] = block]
            /\ ncalls' = [ncalls EXCEPT ![r] = @ + 1]
            /\ UNCHANGED <<block, site, started, wpc, wlock, wwait, rlock, res, s1>>
\* RLock: blocked by a writer that holds the lock or waits for it
RAcquire(r) == /\ rpc[r] = "wait" /\ ~wlock /\ ~wwait
               /\ rlock' = rlock \cup {r} /\ rpc' = [rpc EXCEPT ![r] = "in"]
               /\ UNCHANGED <<block, site, started, wpc, wlock, wwait, kind, c0, res, s1, ncalls>>
\* the query reads the forest
RRead(r) == /\ rpc[r] = "in"
            /\ res' = [res EXCEPT ![r] = <<block, site>>]
            /\ s1' = [s1 EXCEPT ![r] = started]
            /\ rlock' = rlock \ {r}
            /\ rpc' = [rpc EXCEPT ![r] = "ret"]
            /\ UNCHANGED <<block, site, started, wpc, wlock, wwait, kind, c0, ncalls>>
RDone(r) == /\ rpc[r] = "ret" /\ rpc' = [rpc EXCEPT ![r] = "idle"]
            /\ UNCHANGED <<block, site, started, wpc, wlock, wwait, rlock, kind, c0, res, s1, ncalls>>

(***************************************************************************)
(* Schedules for the replay on the real code: the writer is suspended at   *)
(* interior point `site' while the readers in Q have issued queries.       *)
(***************************************************************************)
Snapshot ==
  /\ EmitSchedules /\ wpc = "in" /\ site > 0
  /\ LET Q == {r \in Readers : rpc[r] \in {"wait", "in"}} IN
     /\ Q # {}
     /\ PrintT("@@" \o ToJson([fam |-> "lock", hist |-> <<>>, step |-> [a |-> "schedule"],
                                expect |-> [n |-> 0, roots |-> <<>>],
                                g |-> [site |-> site,
                                       kinds |-> SetToSeq({kind[r] : r \in Q})]]))
  /\ UNCHANGED vars

\* the symmetric schedules: a reader is suspended inside its critical section
\* (holding the read lock) while the writer waits for the lock and further
\* queries queue behind the waiting writer
SnapshotR ==
  /\ EmitSchedules /\ wpc = "wait"
  /\ \E r \in Readers :
       /\ rpc[r] = "in" /\ r \in rlock
       /\ LET Q == {q \in Readers \ {r} : rpc[q] = "wait"} IN
          PrintT("@@" \o ToJson([fam |-> "lock", hist |-> <<>>, step |-> [a |-> "schedule"],
                                   expect |-> [n |-> 0, roots |-> <<>>],
                                   g |-> [site |-> 0, reader |-> kind[r],
                                          kinds |-> SetToSeq({kind[q] : q \in Q})]]))
  /\ UNCHANGED vars

NextReal == WBegin \/ WAcquire \/ WStep \/ WRelease
            \/ (\E r \in Readers : RCall(r) \/ RAcquire(r) \/ RRead(r) \/ RDone(r))
Next == NextReal \/ Snapshot \/ SnapshotR

Fairness == /\ WF_vars(WBegin) /\ WF_vars(WAcquire) /\ WF_vars(WStep) /\ WF_vars(WRelease)
            /\ \A r \in Readers : WF_vars(RAcquire(r)) /\ WF_vars(RRead(r)) /\ WF_vars(RDone(r))
Spec == Init /\ [][Next]_vars /\ Fairness

(***************************************************************************)
(* Properties                                                              *)
(***************************************************************************)
TypeOK == /\ block \in 0..NBlocks /\ site \in 0..NSites /\ started \in block..(block + 1)
          /\ (wlock => rlock = {})

\* the lock discipline itself
MutualExclusion == ~(wlock /\ rlock # {})

\* every returned result is a whole-block state inside the call window
AtomicBlocks ==
  \A r \in Readers : rpc[r] = "ret" =>
     /\ res[r][2] = 0
     /\ c0[r] <= res[r][1] /\ res[r][1] <= s1[r]

\* no deadlock other than termination
Terminated == wpc = "done" /\ \A r \in Readers : rpc[r] = "idle" /\ ncalls[r] = MaxCalls
NoDeadlock == ENABLED NextReal \/ Terminated

\* a writer that asked for the lock gets it and completes its block
WriterProgress == (wpc = "wait") ~> (wpc = "in")
BlockCompletes == (wpc = "in") ~> (wpc \in {"idle", "done"})
=============================================================================
