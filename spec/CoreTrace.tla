----------------------------- MODULE CoreTrace -----------------------------
(***************************************************************************)
(* Trace validation (R->T) for the core family: C01, C02, C06, C10, C11.   *)
(*                                                                         *)
(* A driver runs long random block histories (far beyond what TLC          *)
(* enumerates: up to 64 leaves, dozens of blocks, undo and redo) against   *)
(* the real Stump, Pollard and MapPollard and records what the code did    *)
(* and what it showed.  Nothing in the driver knows what the right answer  *)
(* is.  This specification replays the recorded actions on the abstract    *)
(* state (n, live) - Modify and Undo exactly as in Core.tla - and compares *)
(* every recorded observation with the reference semantics of Forest.tla.  *)
(*                                                                         *)
(* Event kinds (one JSON object per line):                                 *)
(*   reset                          a new history starts                   *)
(*   mod   d k                      block: delete slots d, append k leaves *)
(*   undo                           undo the newest block                  *)
(*   roots inst n roots             leaf count and roots shown by inst     *)
(*   pos   inst pos=[[slot,row,idx]] positions reported for tracked leaves *)
(*         untracked=[slot]          leaves reported as not found          *)
(*   proof inst s t p               Prove(s): targets t, proof hashes p    *)
(*   upd   d k prev td ndel nadd    UpdateData of Stump.Update for block   *)
(*                                   (d, k) - logged BEFORE the mod event  *)
(*   accept api hs tg               a verifier accepted (a mutation of) an *)
(*                                   honest proof for claims hs at tg      *)
(*   hold  s t p lossy              what the light client holds: leaves s  *)
(*                                   with targets t and proof hashes p     *)
(*   pop   inst op s                a partial forest was asked to remember *)
(*                                   (op = vrem, ingest) or to forget      *)
(*                                   (op = prune) the leaves s             *)
(*   stored inst cached nodes       dump of a partial forest: the leaves   *)
(*                                   in its index and every stored         *)
(*                                   [row, idx, hash]                      *)
(* pc[inst] is the set of leaves the partial forest `inst' must remember,  *)
(* followed as in Partial.tla (mod carries prem: per instance the added    *)
(* slots it was asked to remember; an undo brings the deleted leaves back  *)
(* remembered).                                                            *)
(* The mod event also carries rem, the slots a light client asked to       *)
(* remember; the specification follows what that client must hold, as in   *)
(* LightClient.tla: held' = (held \ d) \cup rem, and after an undo what it *)
(* held of the leaves that existed before the undone block.                *)
(* An event that does not match is recorded in `bad' and validation goes   *)
(* on (the abstract state follows the logged actions, not the             *)
(* observations), so one run reports every deviating event.                *)
(***************************************************************************)
EXTENDS Forest, Json, TLCExt

VARIABLES l, n, live, held, pc, stack, bad
tvars == <<l, n, live, held, pc, stack, bad>>

TraceLog == ndJsonDeserialize("trace.ndjson")

SetOf(s) == {s[i] : i \in 1..Len(s)}
JP(p)    == <<p.row, p.idx>>

RootsOK(e) == e.n = n /\ e.roots = Roots(n, live)

PosOK(e) ==
  LET nds == Nodes(n, live) IN
  /\ \A i \in 1..Len(e.pos) :
        /\ e.pos[i][1] \in live
        /\ LET p == PosOfIn(nds, e.pos[i][1]) IN p.row = e.pos[i][2] /\ p.idx = e.pos[i][3]
  \* a leaf reported as not found is dead, or (partial instance) not remembered
  /\ \A i \in 1..Len(e.untracked) : e.partial \/ e.untracked[i] \notin live
  \* a full instance tracks every live leaf
  /\ (~e.partial => {e.pos[i][1] : i \in 1..Len(e.pos)} = live)

ProofOK(e) ==
  /\ SetOf(e.s) \subseteq live
  /\ LET cp == CanonProof(n, live, e.s) IN
     /\ e.t = [i \in 1..Len(cp.t) |-> JP(cp.t[i])]
     /\ e.p = cp.p

UpdOK(e) ==
  /\ SetOf(e.d) \subseteq live
  /\ LET u == UpdateDataRef(n, live, SetOf(e.d), e.k) IN
     /\ e.prev = u.prev
     /\ e.td   = [i \in 1..Len(u.td) |-> JP(u.td[i])]
     /\ e.ndel = [i \in 1..Len(u.ndel) |-> <<u.ndel[i][1].row, u.ndel[i][1].idx, u.ndel[i][2]>>]
     /\ e.nadd = [i \in 1..Len(u.nadd) |-> <<u.nadd[i][1].row, u.nadd[i][1].idx, u.nadd[i][2]>>]

\* the light client holds exactly what it must (after undoing a block that
\* overwrote an empty root - known finding C08-F1 - at most that), each leaf
\* with its true position, and the canonical proof of what it holds
HoldOK(e) ==
  /\ \A i \in 1..Len(e.s) : e.s[i] \in held
  /\ (~e.lossy => SetOf(e.s) = held)
  /\ Len(e.s) = Cardinality(SetOf(e.s))
  /\ LET cp == CanonProof(n, live, e.s) IN
     /\ e.t = [i \in 1..Len(cp.t) |-> JP(cp.t[i])]
     /\ e.p = cp.p

\* C09: index exact, stored hashes true, stored positions within the bounds
PCOf(i) == IF i \in DOMAIN pc THEN pc[i] ELSE {}
StoredOK(e) ==
  LET nds == Nodes(n, live)
      C   == PCOf(e.inst)
      st  == {Pos(e.nodes[i][1], e.nodes[i][2]) : i \in 1..Len(e.nodes)}
  IN  /\ SetOf(e.cached) = C
      /\ \A i \in 1..Len(e.nodes) : e.nodes[i][3] = NodeAtIn(nds, Pos(e.nodes[i][1], e.nodes[i][2]))
      /\ StoredLower(n, nds, C) \subseteq st
      /\ st \subseteq StoredUpper(n, nds, C)

\* C03: a verifier accepted the claims "hash hs[i] sits at position tg[i]"
AcceptOK(e) ==
  ClaimsTrue(n, live, e.hs, [i \in 1..Len(e.tg) |-> Pos(e.tg[i][1], e.tg[i][2])])

Check(e) ==
  CASE e.ev = "roots" -> RootsOK(e)
    [] e.ev = "accept" -> AcceptOK(e)
    [] e.ev = "stored" -> StoredOK(e)
    [] e.ev = "pop"   -> SetOf(e.s) \subseteq (0..(n - 1))
    [] e.ev = "hold"  -> HoldOK(e)
    [] e.ev = "pos"   -> PosOK(e)
    [] e.ev = "proof" -> ProofOK(e)
    [] e.ev = "upd"   -> UpdOK(e)
    [] e.ev = "mod"   -> SetOf(e.d) \subseteq live
    [] e.ev = "undo"  -> stack # <<>>
    [] OTHER          -> TRUE

TraceInit == l = 1 /\ n = 0 /\ live = {} /\ held = {} /\ pc = <<>> /\ stack = <<>> /\ bad = {} /\ TLCSet(1, 1)

TraceNext ==
  /\ l <= Len(TraceLog)
  /\ LET e == TraceLog[l] IN
     /\ bad' = IF Check(e) THEN bad ELSE bad \cup {l}
     /\ CASE e.ev = "reset" -> n' = 0 /\ live' = {} /\ held' = {} /\ pc' = <<>> /\ stack' = <<>>
          [] e.ev = "mod"   -> /\ n' = n + e.k
                               /\ live' = (live \ SetOf(e.d)) \cup (n..(n + e.k - 1))
                               /\ held' = (held \ SetOf(e.d)) \cup SetOf(e.rem)
                               /\ pc' = [i \in DOMAIN pc \cup {e.prem[j][1] : j \in 1..Len(e.prem)} |->
                                           (PCOf(i) \ SetOf(e.d)) \cup
                                           UNION {SetOf(e.prem[j][2]) : j \in {jj \in 1..Len(e.prem) : e.prem[jj][1] = i}}]
                               /\ stack' = <<[n |-> n, live |-> live]>> \o stack
          [] e.ev = "undo" /\ stack # <<>> ->
                               /\ n' = Head(stack).n /\ live' = Head(stack).live
                               /\ held' = {x \in held : x < Head(stack).n}
                               /\ pc' = [i \in DOMAIN pc |-> {x \in pc[i] : x < Head(stack).n} \cup (Head(stack).live \ live)]
                               /\ stack' = Tail(stack)
          [] e.ev = "pop"   -> /\ pc' = [i \in DOMAIN pc \cup {e.inst} |->
                                           IF i # e.inst THEN PCOf(i)
                                           ELSE IF e.op = "prune" THEN PCOf(i) \ SetOf(e.s)
                                           ELSE PCOf(i) \cup (SetOf(e.s) \cap live)]
                               /\ UNCHANGED <<n, live, held, stack>>
          [] OTHER          -> UNCHANGED <<n, live, held, pc, stack>>
  /\ l' = l + 1

TraceSpec == TraceInit /\ [][TraceNext]_tvars
TraceProgress == TLCSet(1, IF l > TLCGet(1) THEN l ELSE TLCGet(1))

\* accepted: the whole log was consumed and no event deviated
TraceAccepted ==
  /\ TLCGet(1) = Len(TraceLog) + 1
  /\ TRUE
TraceReport ==
  (l = Len(TraceLog) + 1 /\ bad # {}) => PrintT("TRACE-BAD " \o ToString(bad))
=============================================================================
