---------------------------- MODULE MapForestAlg ----------------------------
(***************************************************************************)
(* The position-map forest as an algorithm (design-level cross-check of    *)
(* the reference semantics; positions of C01, C02, C10).                   *)
(*                                                                         *)
(* Forest.tla says where every node sits (Place) without any history.      *)
(* This module keeps a map from positions to hashes the way the map forest *)
(* does: a deletion forgets the subtree below the target, moves the        *)
(* sibling subtree up one row into the parent's place and re-hashes the    *)
(* ancestors (twin targets are replaced by their parent first, targets are *)
(* processed in ascending position order); an addition hashes the new leaf *)
(* with the roots of the trailing one-bits of the leaf count, and where    *)
(* such a root is empty the subtree built so far moves up over it.         *)
(* TLC checks over all block histories in bounds                           *)
(*     MapRefines:  the map = { position -> hash : Forest!Nodes(n, live) } *)
(*                  plus an empty hash at the root of every all-dead tree  *)
(* i.e. the swapless move-up algorithm and the history-free placement      *)
(* agree on the position and hash of every node, for every history.        *)
(* A failure means the oracle (or this algorithm) is wrong, never the code.*)
(***************************************************************************)
EXTENDS Forest

CONSTANTS MaxN, MaxAdds,
          UVariant   \* "ok"; negative demonstration of the undo algorithm: "noempty" (the overwritten empty root is not put back)
VARIABLES n, live, m      \* m: function from positions to hashes
mvars == <<n, live, m>>

AscSeq(S) == SetToSortSeq(S, <)
Put(f, p, h)   == [q \in DOMAIN f \cup {p} |-> IF q = p THEN h ELSE f[q]]

\* q lies strictly below a
Below(a, q) == IsAnc(a, q)

\* the subtree topped by s moves up one row into the place of its parent
MoveUpPos(s, q) ==
  LET d == s.row - q.row
      j == q.idx - s.idx * (2^d)
  IN  Pos(q.row + 1, (s.idx \div 2) * (2^d) + j)
MoveUp(f, s) ==
  LET moving == {q \in DOMAIN f : q = s \/ Below(s, q)}
      stay   == DOMAIN f \ moving
  IN  [p \in stay \cup {MoveUpPos(s, q) : q \in moving} |->
         IF p \in stay /\ ~(\E q \in moving : MoveUpPos(s, q) = p) THEN f[p]
         ELSE f[CHOOSE q \in moving : MoveUpPos(s, q) = p]]

\* re-hash from position p upwards to the root of its tree
RECURSIVE Rehash(_, _, _)
Rehash(f, x, p) ==
  IF IsRoot(x, p) THEN f
  ELSE LET a == Par(p)
           l == LChild(a)
           r == RChild(a)
       IN  Rehash(Put(f, a, H(f[l], f[r])), x, a)

RemoveSingle(f, x, del) ==
  LET f1 == Restrict(f, {q \in DOMAIN f : ~Below(del, q)})          \* forget below
  IN  IF IsRoot(x, del) THEN Put(f1, del, Empty)
      ELSE LET f2 == Restrict(f1, DOMAIN f1 \ {del})
               f3 == MoveUp(f2, Sib(del))
           IN  Rehash(f3, x, Par(del))

\* twin targets are replaced by their parent, repeatedly
RECURSIVE DeTwin(_)
DeTwin(T) ==
  IF \E p \in T : IsLeft(p) /\ Sib(p) \in T
  THEN LET p == CHOOSE q \in T : IsLeft(q) /\ Sib(q) \in T
       IN  DeTwin((T \ {p, Sib(p)}) \cup {Par(p)})
  ELSE T

RECURSIVE RemoveAll(_, _, _)
RemoveAll(f, x, ts) == IF ts = <<>> THEN f ELSE RemoveAll(RemoveSingle(f, x, Head(ts)), x, Tail(ts))

\* one added leaf
RECURSIVE Climb(_, _, _, _, _)
Climb(f, x, p, cur, h) ==
  IF Bit(x, h)
  THEN LET rp == RootPos(x, h) IN
       IF f[rp] = Empty
       THEN \* the empty root is overwritten: the subtree built so far moves up
            Climb(MoveUp(Restrict(f, DOMAIN f \ {rp}), p), x, Par(p), cur, h + 1)
       ELSE LET nh == H(f[rp], cur) IN Climb(Put(f, Par(p), nh), x, Par(p), nh, h + 1)
  ELSE f
AddOne(f, x) == Climb(Put(f, Pos(0, x), Leaf(x)), x, Pos(0, x), Leaf(x), 0)

RECURSIVE AddMany(_, _, _)
AddMany(f, x, k) == IF k = 0 THEN f ELSE AddMany(AddOne(f, x), x + 1, k - 1)

MInit == n = 0 /\ live = {} /\ m = <<>>

MBlock ==
  \E D \in SUBSET live, k \in 0..MaxAdds :
    /\ n + k <= MaxN
    /\ LET nds == Nodes(n, live)
           T   == DeTwin({PosOfIn(nds, s) : s \in D})
           f1  == RemoveAll(m, n, SortPos(T))
       IN  m' = AddMany(f1, n, k)
    /\ n' = n + k
    /\ live' = (live \ D) \cup (n..(n + k - 1))

MSpec == MInit /\ [][MBlock]_mvars

\* the map the reference semantics prescribes
RefMap ==
  LET nds   == Nodes(n, live)
      dead  == {RootPos(n, h) : h \in {g \in Heights(n) : ~Alive(live, TreeStart(n, g), 2^g)}}
      posns == {NodePos(nd) : nd \in nds} \cup dead
  IN  [p \in posns |-> NodeAtIn(nds, p)]

MapRefines == m = RefMap
(***************************************************************************)
(* Undo of a block, as the map forest does it (design-level check of C06). *)
(* The additions are taken back one by one, newest first: the parents the  *)
(* leaf created are removed; where the leaf's subtree had moved up over an *)
(* empty root it moves back down and the empty root is put back.  Then the *)
(* deletions are taken back, in the reverse order of their removal: the    *)
(* sibling subtree that had moved up into the parent's place moves back    *)
(* down, the deleted subtree is rebuilt from the deleted leaf hashes (all  *)
(* leaves below a detwinned target are targets) and the ancestors are      *)
(* hashed again.  TLC checks that the map is again the one the reference   *)
(* semantics prescribes for the state before the block (MapRefines on the  *)
(* state reached by MUndo), for every block of every reachable state.      *)
(***************************************************************************)
VARIABLE prev
uvars == <<n, live, m, prev>>

\* the subtree topped by a moves down one row into the place of its child s
MoveDownPos(a, s, q) ==
  LET d == a.row - q.row
      j == q.idx - a.idx * (2^d)
  IN  Pos(q.row - 1, s.idx * (2^d) + j)
MoveDownTo(f, a, s) ==
  LET moving == {q \in DOMAIN f : q = a \/ Below(a, q)}
      stay   == DOMAIN f \ moving
  IN  [p \in stay \cup {MoveDownPos(a, s, q) : q \in moving} |->
         IF p \in stay THEN f[p] ELSE f[CHOOSE q \in moving : MoveDownPos(a, s, q) = p]]

TrailingOnes(y) == CHOOSE t \in 0..(MAXH + 1) : (\A h \in 0..(t - 1) : Bit(y, h)) /\ ~Bit(y, t)

\* when the leaf of slot y was added to the forest that had x leaves after the
\* deletions (live set lvd), the tree of height g was one of the original
\* trees and had no survivors
EmptyAt(x, lvd, y, g) == Bit(y, g) /\ TreeStart(y, g) + 2^g <= x /\ ~Alive(lvd, TreeStart(y, g), 2^g)

RECURSIVE Unclimb(_, _, _, _, _, _)
Unclimb(f, x, lvd, y, p, h) ==
  IF h = 0 THEN Restrict(f, DOMAIN f \ {p})
  ELSE IF EmptyAt(x, lvd, y, h - 1)
       THEN Unclimb(IF UVariant = "noempty" THEN MoveDownTo(f, p, RChild(p))
                    ELSE Put(MoveDownTo(f, p, RChild(p)), LChild(p), Empty), x, lvd, y, RChild(p), h - 1)
       ELSE Unclimb(Restrict(f, DOMAIN f \ {p}), x, lvd, y, RChild(p), h - 1)
UndoAddOne(f, x, lvd, y) ==
  LET t == TrailingOnes(y) IN Unclimb(f, x, lvd, y, RootPos(y + 1, t), t)

RECURSIVE UndoAddMany(_, _, _, _)
UndoAddMany(f, x, lvd, k) == IF k = 0 THEN f ELSE UndoAddMany(UndoAddOne(f, x, lvd, x + k - 1), x, lvd, k - 1)

\* the nodes at and below a deleted position, rebuilt from the deleted leaves
RECURSIVE CloseUp(_)
CloseUp(g) ==
  IF \E p \in DOMAIN g : IsLeft(p) /\ Sib(p) \in DOMAIN g /\ Par(p) \notin DOMAIN g
  THEN LET p == CHOOSE q \in DOMAIN g : IsLeft(q) /\ Sib(q) \in DOMAIN g /\ Par(q) \notin DOMAIN g
       IN  CloseUp(Put(g, Par(p), H(g[p], g[Sib(p)])))
  ELSE g
Rebuilt(tg, del) ==
  LET under == {p \in DOMAIN tg : p = del \/ Below(del, p)}
      g     == CloseUp([p \in under |-> tg[p]])
  IN  [p \in {q \in DOMAIN g : q = del \/ Below(del, q)} |-> g[p]]

Merge(f, g) == [p \in DOMAIN f \cup DOMAIN g |-> IF p \in DOMAIN g THEN g[p] ELSE f[p]]

UndoRemoveSingle(f, x, tg, del) ==
  IF IsRoot(x, del) THEN Merge(Restrict(f, DOMAIN f \ {del}), Rebuilt(tg, del))
  ELSE Rehash(Merge(MoveDownTo(f, Par(del), Sib(del)), Rebuilt(tg, del)), x, del)

RECURSIVE UndoRemoveAll(_, _, _, _)
UndoRemoveAll(f, x, tg, ts) ==
  IF ts = <<>> THEN f
  ELSE UndoRemoveAll(UndoRemoveSingle(f, x, tg, ts[Len(ts)]), x, tg, SubSeq(ts, 1, Len(ts) - 1))

MUInit == MInit /\ prev = <<>>

MUBlock == /\ MBlock
           /\ prev' = [n |-> n, live |-> live]

MUndo ==
  /\ prev # <<>>
  /\ LET x   == prev.n
         D   == prev.live \ live
         lvd == prev.live \ D
         k   == n - x
         nds == Nodes(x, prev.live)
         tg  == [p \in {PosOfIn(nds, s) : s \in D} |-> Leaf((CHOOSE nd \in nds : NodePos(nd) = p).slot)]
         T   == DeTwin(DOMAIN tg)
         f1  == UndoAddMany(m, x, lvd, k)
     IN  m' = UndoRemoveAll(f1, x, tg, SortPos(T))
  /\ n' = prev.n /\ live' = prev.live /\ prev' = <<>>

MUSpec == MUInit /\ [][MUBlock \/ MUndo]_uvars

=============================================================================
