---------------------------- MODULE MapForestAlg ----------------------------
(***************************************************************************)
(* The position-map forest as an algorithm (design-level cross-check of    *)
(* the reference semantics; positions of C01, C02, C10).                   *)
(*                                                                         *)
(* Forest.tla says where every node sits (Place) without any history.      *)
(* This module keeps a map from positions to hashes the way the map forest *)
(* does: a deletion forgets the subtree below the target, moves the        *)
(* sibling subtree up one row into the parent's place and re-hashes the    *)
(* ancestors (twin targets are replaced by their parent first, targets are *)
(* processed in ascending position order); an addition hashes the new leaf *)
(* with the roots of the trailing one-bits of the leaf count, and where    *)
(* such a root is empty the subtree built so far moves up over it.         *)
(* TLC checks over all block histories in bounds                           *)
(*     MapRefines:  the map = { position -> hash : Forest!Nodes(n, live) } *)
(*                  plus an empty hash at the root of every all-dead tree  *)
(* i.e. the swapless move-up algorithm and the history-free placement      *)
(* agree on the position and hash of every node, for every history.        *)
(* A failure means the oracle (or this algorithm) is wrong, never the code.*)
(***************************************************************************)
EXTENDS Forest

CONSTANTS MaxN, MaxAdds
VARIABLES n, live, m      \* m: function from positions to hashes
mvars == <<n, live, m>>

AscSeq(S) == SetToSortSeq(S, <)
Put(f, p, h)   == [q \in DOMAIN f \cup {p} |-> IF q = p THEN h ELSE f[q]]

\* q lies strictly below a
Below(a, q) == IsAnc(a, q)

\* the subtree topped by s moves up one row into the place of its parent
MoveUpPos(s, q) ==
  LET d == s.row - q.row
      j == q.idx - s.idx * (2^d)
  IN  Pos(q.row + 1, (s.idx \div 2) * (2^d) + j)
MoveUp(f, s) ==
  LET moving == {q \in DOMAIN f : q = s \/ Below(s, q)}
      stay   == DOMAIN f \ moving
  IN  [p \in stay \cup {MoveUpPos(s, q) : q \in moving} |->
         IF p \in stay /\ ~(\E q \in moving : MoveUpPos(s, q) = p) THEN f[p]
         ELSE f[CHOOSE q \in moving : MoveUpPos(s, q) = p]]

\* re-hash from position p upwards to the root of its tree
RECURSIVE Rehash(_, _, _)
Rehash(f, x, p) ==
  IF IsRoot(x, p) THEN f
  ELSE LET a == Par(p)
           l == LChild(a)
           r == RChild(a)
       IN  Rehash(Put(f, a, H(f[l], f[r])), x, a)

RemoveSingle(f, x, del) ==
  LET f1 == Restrict(f, {q \in DOMAIN f : ~Below(del, q)})          \* forget below
  IN  IF IsRoot(x, del) THEN Put(f1, del, Empty)
      ELSE LET f2 == Restrict(f1, DOMAIN f1 \ {del})
               f3 == MoveUp(f2, Sib(del))
           IN  Rehash(f3, x, Par(del))

\* twin targets are replaced by their parent, repeatedly
RECURSIVE DeTwin(_)
DeTwin(T) ==
  IF \E p \in T : IsLeft(p) /\ Sib(p) \in T
  THEN LET p == CHOOSE q \in T : IsLeft(q) /\ Sib(q) \in T
       IN  DeTwin((T \ {p, Sib(p)}) \cup {Par(p)})
  ELSE T

RECURSIVE RemoveAll(_, _, _)
RemoveAll(f, x, ts) == IF ts = <<>> THEN f ELSE RemoveAll(RemoveSingle(f, x, Head(ts)), x, Tail(ts))

\* one added leaf
RECURSIVE Climb(_, _, _, _, _)
Climb(f, x, p, cur, h) ==
  IF Bit(x, h)
  THEN LET rp == RootPos(x, h) IN
       IF f[rp] = Empty
       THEN \* the empty root is overwritten: the subtree built so far moves up
            Climb(MoveUp(Restrict(f, DOMAIN f \ {rp}), p), x, Par(p), cur, h + 1)
       ELSE LET nh == H(f[rp], cur) IN Climb(Put(f, Par(p), nh), x, Par(p), nh, h + 1)
  ELSE f
AddOne(f, x) == Climb(Put(f, Pos(0, x), Leaf(x)), x, Pos(0, x), Leaf(x), 0)

RECURSIVE AddMany(_, _, _)
AddMany(f, x, k) == IF k = 0 THEN f ELSE AddMany(AddOne(f, x), x + 1, k - 1)

MInit == n = 0 /\ live = {} /\ m = <<>>

MBlock ==
  \E D \in SUBSET live, k \in 0..MaxAdds :
    /\ n + k <= MaxN
    /\ LET nds == Nodes(n, live)
           T   == DeTwin({PosOfIn(nds, s) : s \in D})
           f1  == RemoveAll(m, n, SortPos(T))
       IN  m' = AddMany(f1, n, k)
    /\ n' = n + k
    /\ live' = (live \ D) \cup (n..(n + k - 1))

MSpec == MInit /\ [][MBlock]_mvars

\* the map the reference semantics prescribes
RefMap ==
  LET nds   == Nodes(n, live)
      dead  == {RootPos(n, h) : h \in {g \in Heights(n) : ~Alive(live, TreeStart(n, g), 2^g)}}
      posns == {NodePos(nd) : nd \in nds} \cup dead
  IN  [p \in posns |-> NodeAtIn(nds, p)]

MapRefines == m = RefMap
=============================================================================
