------------------------------ MODULE StumpAlg ------------------------------
(***************************************************************************)
(* The roots-only verifier as an incremental algorithm (design-level       *)
(* cross-check of the reference semantics; C01 and C11).                   *)
(*                                                                         *)
(* Forest.tla defines the roots of (n, live) without any history: Val      *)
(* collapses dead subtrees.  This module keeps a root list the way a       *)
(* verifier does - deleting by walking an honest proof with empty hashes   *)
(* (VerifierFun!DelRoots), adding leaf by leaf: pop the roots of the       *)
(* trailing one-bits of the leaf count, hashing with each non-empty one    *)
(* and passing over each empty one - and records what it destroys and      *)
(* what it recomputes.  TLC checks over all block histories in bounds:     *)
(*    RootsRefine   the incremental root list = Forest!Roots(n, live)      *)
(*                  (so the result cannot depend on batching)              *)
(*    UpdateRefine  destroyed roots and recomputed (position, hash) pairs  *)
(*                  = UpdateDataRef.td / .ndel of Forest.tla               *)
(* A failure here means the reference semantics (the oracle of every       *)
(* check) or this algorithm is wrong - never the code.                     *)
(***************************************************************************)
EXTENDS VerifierFun

CONSTANT MaxAdds
VARIABLES roots, ud
svars == <<n, live, roots, ud>>

NoUpd == [td |-> <<>>, ndel |-> <<>>, prev |-> 0]

SInit == n = 0 /\ live = {} /\ roots = <<>> /\ ud = NoUpd

\* one added leaf: pop the roots below the first zero bit of the count
RECURSIVE PopRoots(_, _, _, _, _)
PopRoots(x, rs, cur, h, td) ==
  IF Bit(x, h)
  THEN LET r == rs[Len(rs)] IN
       PopRoots(x, SubSeq(rs, 1, Len(rs) - 1),
                IF r = Empty THEN cur ELSE H(r, cur), h + 1,
                IF r = Empty THEN Append(td, RootPos(x, h)) ELSE td)
  ELSE [roots |-> Append(rs, cur), td |-> td]

RECURSIVE AddMany(_, _, _, _)
AddMany(x, rs, k, td) ==
  IF k = 0 THEN [roots |-> rs, td |-> td]
  ELSE LET a == PopRoots(x, rs, Leaf(x), 0, td) IN AddMany(x + 1, a.roots, k - 1, a.td)

SBlock ==
  \E D \in SUBSET live, k \in 0..MaxAdds :
    /\ n + k <= MaxN
    /\ LET ord  == AscSeq(D)
           cp   == CanonProof(n, live, ord)       \* what an honest prover sends
           walk == Calc(n, [i \in 1..Len(ord) |-> Empty], cp.t, cp.p)
           r1   == IF D = {} THEN roots ELSE DelRoots(n, roots, cp.t, cp.p)
           a    == AddMany(n, r1, k, <<>>)
       IN  /\ roots' = a.roots
           /\ ud' = [prev |-> n, td |-> a.td,
                     ndel |-> IF D = {} THEN <<>> ELSE [i \in 1..Len(walk.seen) |-> <<walk.seen[i].pos, walk.seen[i].hash>>],
                     d |-> D, k |-> k, n0 |-> n, live0 |-> live]
           /\ n' = n + k
           /\ live' = (live \ D) \cup (n..(n + k - 1))

SSpec == SInit /\ [][SBlock]_svars

RootsRefine == roots = Roots(n, live)

UpdateRefine ==
  ud # NoUpd =>
    LET ref == UpdateDataRef(ud.n0, ud.live0, ud.d, ud.k)
    IN  /\ ud.prev = ref.prev
        /\ ud.td = ref.td
        /\ ud.ndel = ref.ndel
=============================================================================
