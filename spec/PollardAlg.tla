----------------------------- MODULE PollardAlg -----------------------------
(***************************************************************************)
(* The pointer forest as an algorithm (design-level cross-check of the     *)
(* reference semantics for pollard.go / polnode.go; C01, C10).             *)
(*                                                                         *)
(* Every node of the pointer forest holds its hash, a pointer to its aunt  *)
(* (its parent's sibling; its parent when that is a root) and pointers to  *)
(* its two NIECES - the children of its sibling; a root holds its own      *)
(* children.  This module keeps a heap of such nodes and transcribes the   *)
(* pointer manipulations of the implementation: an addition hashes the new *)
(* node with the roots of the trailing one-bits of the leaf count (the two *)
(* nodes swap their nieces, an empty root is dropped and the node moves up *)
(* over it); a deletion moves the sibling of the deleted position into the *)
(* place of its parent by transferring aunt and nieces (or by copying it   *)
(* into the root's cell), hands the deleted node's nieces - the moving     *)
(* node's children - to the node's new sibling, and re-hashes the          *)
(* ancestors; deleting a root chops it and leaves an empty hash.  The      *)
(* quirks of the code are kept (updateAunt returns as soon as it finds a   *)
(* niece with the right aunt; after the move deleteSingle goes on working  *)
(* with the detached parent object).                                       *)
(*                                                                         *)
(* TLC checks over all block histories within the bounds                   *)
(*   PollardRefines: the node found at a position by walking nieces from   *)
(*                   the root carries Forest!NodeAt of that position, and  *)
(*                   positions where the forest has no node lead to nil;   *)
(*   AuntOK:         every node's aunt pointer is the node at its parent's *)
(*                   sibling (the parent itself under a root), which is    *)
(*                   what GetLeafPosition relies on.                       *)
(* A failure means this transcription or the oracle is wrong, never the    *)
(* code.                                                                   *)
(***************************************************************************)
EXTENDS Forest

CONSTANTS MaxN, MaxAdds,
          PVariant   \* "ok"; negative demonstrations: "nochildren" (the moving node's children are not handed to its new
                     \* sibling), "noempties" (Undo does not put the overwritten empty roots back)

VARIABLES n, live,
          hp,      \* heap: node id -> [data, l, r, aunt]  (0 = nil)
          roots,   \* node ids of the roots, highest tree first
          nxt      \* next fresh node id
pvars == <<n, live, hp, roots, nxt>>

Nil == 0
Node(d, l, r, a) == [data |-> d, l |-> l, r |-> r, aunt |-> a]

Set(h, x, f, v) == [h EXCEPT ![x] = [@ EXCEPT ![f] = v]]
New(h, x, rec)  == [i \in DOMAIN h \cup {x} |-> IF i = x THEN rec ELSE h[i]]

(***************************************************************************)
(* polnode.go                                                              *)
(***************************************************************************)
\* updateAunt: works its way down until it meets a niece whose aunt is right
RECURSIVE UpdAunt(_, _)
UpdAunt(h, x) ==
  IF h[x].l # Nil /\ h[h[x].l].aunt = x THEN h            \* (returns: the right niece is not looked at)
  ELSE LET h1 == IF h[x].l # Nil THEN UpdAunt(Set(h, h[x].l, "aunt", x), h[x].l) ELSE h
       IN  IF h1[x].r # Nil
           THEN IF h1[h1[x].r].aunt = x THEN h1
                ELSE UpdAunt(Set(h1, h1[x].r, "aunt", x), h1[x].r)
           ELSE h1

SwapNieces(h, a, b) ==
  LET h1 == [h EXCEPT ![a] = [@ EXCEPT !.l = h[b].l, !.r = h[b].r],
                      ![b] = [@ EXCEPT !.l = h[a].l, !.r = h[a].r]]
  IN  UpdAunt(UpdAunt(h1, a), b)

\* transferNiece: b's nieces go to a
TransferNiece(h, a, b) ==
  LET h1 == [h EXCEPT ![a] = [@ EXCEPT !.l = h[b].l, !.r = h[b].r],
                      ![b] = [@ EXCEPT !.l = Nil, !.r = Nil]]
  IN  UpdAunt(h1, a)

\* transferAunt: b's aunt becomes a's aunt (b keeps its own aunt field)
TransferAunt(h, a, b) ==
  LET aa == h[a].aunt
      h1 == IF aa = Nil THEN h
            ELSE IF h[aa].l = a THEN Set(h, aa, "l", Nil)
            ELSE IF h[aa].r = a THEN Set(h, aa, "r", Nil) ELSE h
      ba == h1[b].aunt
      h2 == IF ba = Nil THEN h1
            ELSE IF h1[ba].l = b THEN Set(h1, ba, "l", a)
            ELSE IF h1[ba].r = b THEN Set(h1, ba, "r", a) ELSE h1
      h3 == Set(h2, a, "aunt", ba)
  IN  IF ba # Nil THEN UpdAunt(h3, ba) ELSE h3

DelNode(h, x) ==
  IF x = Nil THEN h
  ELSE LET a  == h[x].aunt
           h1 == IF a = Nil THEN h
                 ELSE IF h[a].r = x THEN Set(h, a, "r", Nil)
                 ELSE IF h[a].l = x THEN Set(h, a, "l", Nil) ELSE h
           h2 == IF h1[x].l # Nil THEN Set(h1, h1[x].l, "aunt", Nil) ELSE h1
           h3 == IF h2[x].r # Nil THEN Set(h2, h2[x].r, "aunt", Nil) ELSE h2
       IN  [h3 EXCEPT ![x] = Node(h3[x].data, Nil, Nil, Nil)]

GetSibling(h, x) ==
  LET a == h[x].aunt IN
  IF a = Nil THEN Nil ELSE IF h[a].l = x THEN h[a].r ELSE h[a].l

GetParent(h, x) ==
  LET a == h[x].aunt IN
  IF a = Nil THEN Nil
  ELSE IF h[a].aunt = Nil THEN a
  ELSE LET g == h[a].aunt IN IF h[g].l = a THEN h[g].r ELSE h[g].l

\* <<left child, right child>>
GetChildren(h, x) ==
  IF h[x].aunt = Nil THEN <<h[x].l, h[x].r>>
  ELSE LET s == GetSibling(h, x) IN <<h[s].l, h[s].r>>

RECURSIVE HashToRoot(_, _)
HashToRoot(h, x) ==
  IF x = Nil THEN h
  ELSE LET c  == GetChildren(h, x)
           h1 == Set(h, x, "data", H(h[c[1]].data, h[c[2]].data))
       IN  HashToRoot(h1, GetParent(h1, x))

(***************************************************************************)
(* Walking from a root to a position: the children of a position are held  *)
(* by the node at its sibling (by the node itself if it is a root).        *)
(***************************************************************************)
RootIndex(x, h) == CHOOSE i \in 1..PopCount(x) : HeightSeq(x)[i] = h

RECURSIVE At(_, _, _, _)
At(h, rts, x, p) ==
  IF IsRoot(x, p) THEN rts[RootIndex(x, p.row)]
  ELSE LET q      == Par(p)
           holder == IF IsRoot(x, q) THEN At(h, rts, x, q) ELSE At(h, rts, x, Sib(q))
       IN  IF holder = Nil THEN Nil
           ELSE IF IsLeft(p) THEN h[holder].l ELSE h[holder].r

(***************************************************************************)
(* pollard.go                                                              *)
(***************************************************************************)
DeleteRoot(h, rts, x, del) ==
  LET r  == rts[RootIndex(x, del.row)]
      h1 == IF h[r].l # Nil THEN Set(h, h[r].l, "aunt", Nil) ELSE h
      h2 == IF h1[r].r # Nil THEN Set(h1, h1[r].r, "aunt", Nil) ELSE h1
      h3 == DelNode(DelNode(h2, h2[r].l), h2[r].r)              \* chop
  IN  [h3 EXCEPT ![r] = Node(Empty, Nil, Nil, Nil)]

DeleteSingle(h, rts, x, del) ==
  LET fromNode    == At(h, rts, x, Sib(del))
      fromNodeSib == At(h, rts, x, del)
      toNode      == GetParent(h, fromNodeSib)
      toSib       == h[fromNodeSib].aunt
      moved ==
        IF h[toNode].aunt # Nil
        THEN LET h1 == TransferAunt(h, fromNode, toNode)
                 h2 == TransferNiece(h1, fromNode, toNode)
                 h3 == IF PVariant = "nochildren" THEN h2 ELSE TransferNiece(h2, toSib, fromNodeSib)
             IN  UpdAunt(h3, h3[toNode].aunt)
        ELSE LET h1 == [h EXCEPT ![toNode] = h[fromNode]]          \* *toNode = *fromNode
                 h2 == TransferNiece(h1, toNode, fromNodeSib)
                 h3 == UpdAunt(h2, toNode)
             IN  DelNode(h3, fromNode)
      h4 == DelNode(moved, fromNodeSib)
      to == Par(del)
  IN  IF IsRoot(x, to) THEN Set(h4, toNode, "aunt", Nil)
      ELSE LET parentNode == GetParent(h4, toNode)
               sibOfParent == GetSibling(h4, parentNode)
               h5 == Set(h4, toNode, "aunt", IF sibOfParent = Nil THEN parentNode ELSE sibOfParent)
           IN  HashToRoot(h5, parentNode)

RECURSIVE DeTwin(_)
DeTwin(T) ==
  IF \E p \in T : IsLeft(p) /\ Sib(p) \in T
  THEN LET p == CHOOSE q \in T : IsLeft(q) /\ Sib(q) \in T
       IN  DeTwin((T \ {p, Sib(p)}) \cup {Par(p)})
  ELSE T

RECURSIVE RemoveAll(_, _, _, _)
RemoveAll(h, rts, x, ts) ==
  IF ts = <<>> THEN h
  ELSE LET del == Head(ts)
           h1  == IF IsRoot(x, del) THEN DeleteRoot(h, rts, x, del) ELSE DeleteSingle(h, rts, x, del)
       IN  RemoveAll(h1, rts, x, Tail(ts))

\* calculateNewRoot: <<heap, roots, node, next id>> after climbing from height g
RECURSIVE Climb(_, _, _, _, _, _)
Climb(h, rts, x, node, id, g) ==
  IF Bit(x, g)
  THEN LET root == rts[Len(rts)]
           rest == SubSeq(rts, 1, Len(rts) - 1)
       IN  IF h[root].data = Empty THEN Climb(h, rest, x, node, id, g + 1)
           ELSE LET h1 == SwapNieces(h, root, node)
                    h2 == New(h1, id, Node(H(h1[root].data, h1[node].data), root, node, Nil))
                    h3 == UpdAunt(h2, id)
                IN  Climb(h3, rest, x, id, id + 1, g + 1)
  ELSE <<h, Append(rts, node), id>>

RECURSIVE AddMany(_, _, _, _, _)
AddMany(h, rts, x, id, k) ==
  IF k = 0 THEN <<h, rts, id>>
  ELSE LET h1 == New(h, id, Node(Leaf(x), Nil, Nil, Nil))
           c  == Climb(h1, rts, x, id, id + 1, 0)
       IN  AddMany(c[1], c[2], x + 1, c[3], k - 1)

PInit == n = 0 /\ live = {} /\ hp = <<>> /\ roots = <<>> /\ nxt = 1

PBlock ==
  \E D \in SUBSET live, k \in 0..MaxAdds :
    /\ n + k <= MaxN
    /\ LET nds == Nodes(n, live)
           T   == DeTwin({PosOfIn(nds, s) : s \in D})
           h1  == RemoveAll(hp, roots, n, SortPos(T))
           r   == AddMany(h1, roots, n, nxt, k)
       IN  /\ hp' = r[1] /\ roots' = r[2] /\ nxt' = r[3]
    /\ n' = n + k
    /\ live' = (live \ D) \cup (n..(n + k - 1))

PSpec == PInit /\ [][PBlock]_pvars

(***************************************************************************)
(* Undo of a block (pollard.go: Undo, undoSingleAdd, undoEmptyRoots,       *)
(* undoDels, undoSingleDel; polnode.go: deTwinPolNode).  The additions are *)
(* taken back newest first by splitting the lowest root again and again;   *)
(* empty roots that the block deleted or wrote over are put back from the  *)
(* previous root list; for every deleted leaf a node is made, twins are    *)
(* joined under a new parent, and the nodes are put back from the highest  *)
(* position down: the node that had moved up into the parent's place goes  *)
(* back to the sibling position under a new parent node.  TLC checks that  *)
(* PollardRefines and AuntOK hold again for the state before the block.    *)
(***************************************************************************)
VARIABLE pprev
uvars == <<n, live, hp, roots, nxt, pprev>>

LowestBit(x) == CHOOSE g \in 0..(MAXH + 1) : Bit(x, g) /\ \A j \in 0..(g - 1) : ~Bit(x, j)

\* undoSingleAdd: <<heap, roots>>
RECURSIVE SplitDown(_, _, _)
SplitDown(h, rts, row) ==
  IF row < 0 THEN <<h, rts>>
  ELSE LET lowest == rts[Len(rts)]
           rest   == SubSeq(rts, 1, Len(rts) - 1)
           l      == h[lowest].l
           r      == h[lowest].r
       IN  IF l # Nil
           THEN LET h1 == SwapNieces(h, l, r)
                    h2 == Set(Set(h1, l, "aunt", Nil), r, "aunt", Nil)
                IN  SplitDown(DelNode(h2, lowest), rest \o <<l, r>>, row - 1)
           ELSE <<DelNode(h, lowest), rest>>
UndoSingleAdd(h, rts, x) == SplitDown(h, rts, LowestBit(x))

RECURSIVE UndoAdds(_, _, _, _)
UndoAdds(h, rts, x, k) ==
  IF k = 0 THEN <<h, rts>>
  ELSE LET u == UndoSingleAdd(h, rts, x) IN UndoAdds(u[1], u[2], x - 1, k - 1)

\* undoEmptyRoots: <<heap, roots, next id>>; x = leaf count after the additions were taken back
InsertRootAt(sq, i, v) == SubSeq(sq, 1, i - 1) \o <<v>> \o SubSeq(sq, i, Len(sq))
RECURSIVE PutEmpties(_, _, _, _, _)
PutEmpties(h, rts, id, cr, i) ==
  IF i > Len(cr) THEN <<h, rts, id>>
  ELSE IF cr[i] # Empty THEN PutEmpties(h, rts, id, cr, i + 1)
  ELSE IF i > Len(rts)
       THEN PutEmpties(New(h, id, Node(Empty, Nil, Nil, Nil)), Append(rts, id), id + 1, cr, i)   \* (appends until long enough)
  ELSE IF h[rts[i]].data # Empty
       THEN PutEmpties(New(h, id, Node(Empty, Nil, Nil, Nil)), InsertRootAt(rts, i, id), id + 1, cr, i + 1)
  ELSE PutEmpties(h, rts, id, cr, i + 1)
UndoEmptyRoots(h, rts, id, x, T, prevRoots) ==
  IF Len(rts) >= PopCount(x) \/ PVariant = "noempties" THEN <<h, rts, id>>
  ELSE LET cr == [i \in 1..Len(prevRoots) |->
                    IF \E d \in T : IsRoot(x, d) /\ RootIndex(x, d.row) = i THEN Empty ELSE prevRoots[i]]
       IN  PutEmpties(h, rts, id, cr, 1)

\* deTwinPolNode on a position-sorted list of <<node id, position>>: <<heap, list, next id>>
InsertSorted(lst, el) ==
  LET k == Cardinality({i \in 1..Len(lst) : ~PosLess(el[2], lst[i][2])})
  IN  SubSeq(lst, 1, k) \o <<el>> \o SubSeq(lst, k + 1, Len(lst))
RECURSIVE DeTwinNodes(_, _, _, _)
DeTwinNodes(h, lst, id, i) ==
  IF i > Len(lst) THEN <<h, lst, id>>
  ELSE IF i + 1 <= Len(lst) /\ IsLeft(lst[i][2]) /\ Sib(lst[i][2]) = lst[i + 1][2]
       THEN LET a   == lst[i][1]
                b   == lst[i + 1][1]
                h1  == SwapNieces(h, a, b)
                h2  == New(h1, id, Node(H(h1[a].data, h1[b].data), a, b, Nil))
                h3  == UpdAunt(h2, id)
                cut == SubSeq(lst, 1, i - 1) \o SubSeq(lst, i + 2, Len(lst))
            IN  DeTwinNodes(h3, InsertSorted(cut, <<id, Par(lst[i][2])>>), id + 1, i)
       ELSE DeTwinNodes(h, lst, id, i + 1)

\* undoSingleDel: <<heap, next id>>
UndoSingleDel(h, rts, x, id, node, pos) ==
  LET sp      == Par(pos)
      sibling == At(h, rts, x, sp)
      aunt    == IF IsRoot(x, sp) THEN sibling ELSE At(h, rts, x, Sib(sp))
      pHash   == IF IsLeft(pos) THEN H(h[node].data, h[sibling].data) ELSE H(h[sibling].data, h[node].data)
      h0      == New(h, id, Node(pHash, Nil, Nil, Nil))
      parent  == id
  IN  IF h0[sibling].aunt # Nil
      THEN LET h1 == TransferAunt(h0, parent, sibling)
               h2 == TransferNiece(h1, parent, sibling)
               h3 == UpdAunt(h2, parent)
               al == h3[aunt].l
               ar == h3[aunt].r
               h4 == IF IsLeft(pos) THEN [h3 EXCEPT ![aunt] = [@ EXCEPT !.l = node, !.r = sibling]]
                                    ELSE [h3 EXCEPT ![aunt] = [@ EXCEPT !.l = sibling, !.r = node]]
               h5 == UpdAunt(h4, aunt)
               h6 == TransferNiece(h5, sibling, node)
               h7 == [h6 EXCEPT ![node] = [@ EXCEPT !.l = al, !.r = ar]]
               h8 == UpdAunt(h7, node)
           IN  <<HashToRoot(h8, parent), id + 1>>
      ELSE \* the cells are swapped: the root cell now holds the parent, the fresh cell the old root
           LET h1  == [h0 EXCEPT ![sibling] = h0[parent], ![parent] = h0[sibling]]
               par == sibling
               sb  == parent
               h2  == IF IsLeft(pos) THEN [h1 EXCEPT ![par] = [@ EXCEPT !.l = node, !.r = sb]]
                                     ELSE [h1 EXCEPT ![par] = [@ EXCEPT !.l = sb, !.r = node]]
               h3  == UpdAunt(UpdAunt(h2, par), sb)
           IN  <<SwapNieces(h3, h3[par].l, h3[par].r), id + 1>>

RECURSIVE PutBack(_, _, _, _, _, _)
PutBack(h, rts, x, id, lst, i) ==
  IF i = 0 THEN <<h, rts, id>>
  ELSE LET node == lst[i][1]
           pos  == lst[i][2]
       IN  IF IsRoot(x, pos)
           THEN PutBack(h, [rts EXCEPT ![RootIndex(x, pos.row)] = node], x, id, lst, i - 1)
           ELSE LET u == UndoSingleDel(h, rts, x, id, node, pos)
                IN  PutBack(u[1], rts, x, u[2], lst, i - 1)

\* one node per deleted leaf, ids from `id' on, sorted by position
RECURSIVE MakeNodes(_, _, _, _)
MakeNodes(h, id, ps, tg) ==
  IF ps = <<>> THEN <<h, <<>>, id>>
  ELSE LET r == MakeNodes(New(h, id, Node(tg[Head(ps)], Nil, Nil, Nil)), id + 1, Tail(ps), tg)
       IN  <<r[1], <<<<id, Head(ps)>>>> \o r[2], r[3]>>

PUInit == PInit /\ pprev = <<>>
Undone == [n |-> -1, live |-> {}]     \* marker: the behaviour ends after its undo (undo and redo allocate fresh nodes for ever)
PUBlock == pprev # Undone /\ PBlock /\ pprev' = [n |-> n, live |-> live]
PUndo ==
  /\ pprev # <<>> /\ pprev # Undone
  /\ LET x   == pprev.n
         D   == pprev.live \ live
         k   == n - x
         nds == Nodes(x, pprev.live)
         tg  == [p \in {PosOfIn(nds, s) : s \in D} |-> Leaf((CHOOSE nd \in nds : NodePos(nd) = p).slot)]
         u1  == UndoAdds(hp, roots, n, k)
         u2  == UndoEmptyRoots(u1[1], u1[2], nxt, x, DeTwin(DOMAIN tg), Roots(x, pprev.live))
         mk  == MakeNodes(u2[1], u2[3], SortPos(DOMAIN tg), tg)
         dt  == DeTwinNodes(mk[1], mk[2], mk[3], 1)
         pb  == PutBack(dt[1], u2[2], x, dt[3], dt[2], Len(dt[2]))
     IN  hp' = pb[1] /\ roots' = pb[2] /\ nxt' = pb[3]
  /\ n' = pprev.n /\ live' = pprev.live /\ pprev' = Undone

PUSpec == PUInit /\ [][PUBlock \/ PUndo]_uvars

(***************************************************************************)
(* Refinement                                                              *)
(***************************************************************************)
AllPositions == {Pos(r, i) : r \in 0..TreeRows(n), i \in 0..(2^(TreeRows(n)) - 1)}
InTrees      == {p \in AllPositions : InForest(n, p) /\ \E q \in AncUp(n, p) : IsRoot(n, q)}

PollardRefines ==
  LET nds == Nodes(n, live) IN
  /\ Len(roots) = PopCount(n)
  /\ \A p \in InTrees :
        LET x == At(hp, roots, n, p)
            v == NodeAtIn(nds, p)
        IN  IF IsRoot(n, p) THEN x # Nil /\ hp[x].data = v
            ELSE IF v = Empty THEN x = Nil
            ELSE x # Nil /\ hp[x].data = v

AuntOK ==
  \A p \in InTrees :
    LET x == At(hp, roots, n, p) IN
    x # Nil =>
      IF IsRoot(n, p) THEN hp[x].aunt = Nil
      ELSE hp[x].aunt = (IF IsRoot(n, Par(p)) THEN At(hp, roots, n, Par(p))
                         ELSE At(hp, roots, n, Sib(Par(p))))
=============================================================================
