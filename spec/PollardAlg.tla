----------------------------- MODULE PollardAlg -----------------------------
(***************************************************************************)
(* The pointer forest as an algorithm (design-level cross-check of the     *)
(* reference semantics for pollard.go / polnode.go; C01, C10).             *)
(*                                                                         *)
(* Every node of the pointer forest holds its hash, a pointer to its aunt  *)
(* (its parent's sibling; its parent when that is a root) and pointers to  *)
(* its two NIECES - the children of its sibling; a root holds its own      *)
(* children.  This module keeps a heap of such nodes and transcribes the   *)
(* pointer manipulations of the implementation: an addition hashes the new *)
(* node with the roots of the trailing one-bits of the leaf count (the two *)
(* nodes swap their nieces, an empty root is dropped and the node moves up *)
(* over it); a deletion moves the sibling of the deleted position into the *)
(* place of its parent by transferring aunt and nieces (or by copying it   *)
(* into the root's cell), hands the deleted node's nieces - the moving     *)
(* node's children - to the node's new sibling, and re-hashes the          *)
(* ancestors; deleting a root chops it and leaves an empty hash.  The      *)
(* quirks of the code are kept (updateAunt returns as soon as it finds a   *)
(* niece with the right aunt; after the move deleteSingle goes on working  *)
(* with the detached parent object).                                       *)
(*                                                                         *)
(* TLC checks over all block histories within the bounds                   *)
(*   PollardRefines: the node found at a position by walking nieces from   *)
(*                   the root carries Forest!NodeAt of that position, and  *)
(*                   positions where the forest has no node lead to nil;   *)
(*   AuntOK:         every node's aunt pointer is the node at its parent's *)
(*                   sibling (the parent itself under a root), which is    *)
(*                   what GetLeafPosition relies on.                       *)
(* A failure means this transcription or the oracle is wrong, never the    *)
(* code.                                                                   *)
(***************************************************************************)
EXTENDS Forest

CONSTANTS MaxN, MaxAdds,
          PVariant   \* "ok"; negative demonstration: "nochildren" (the moving node's children are not handed to its new sibling)

VARIABLES n, live,
          hp,      \* heap: node id -> [data, l, r, aunt]  (0 = nil)
          roots,   \* node ids of the roots, highest tree first
          nxt      \* next fresh node id
pvars == <<n, live, hp, roots, nxt>>

Nil == 0
Node(d, l, r, a) == [data |-> d, l |-> l, r |-> r, aunt |-> a]

Set(h, x, f, v) == [h EXCEPT ![x] = [@ EXCEPT ![f] = v]]
New(h, x, rec)  == [i \in DOMAIN h \cup {x} |-> IF i = x THEN rec ELSE h[i]]

(***************************************************************************)
(* polnode.go                                                              *)
(***************************************************************************)
\* updateAunt: works its way down until it meets a niece whose aunt is right
RECURSIVE UpdAunt(_, _)
UpdAunt(h, x) ==
  IF h[x].l # Nil /\ h[h[x].l].aunt = x THEN h            \* (returns: the right niece is not looked at)
  ELSE LET h1 == IF h[x].l # Nil THEN UpdAunt(Set(h, h[x].l, "aunt", x), h[x].l) ELSE h
       IN  IF h1[x].r # Nil
           THEN IF h1[h1[x].r].aunt = x THEN h1
                ELSE UpdAunt(Set(h1, h1[x].r, "aunt", x), h1[x].r)
           ELSE h1

SwapNieces(h, a, b) ==
  LET h1 == [h EXCEPT ![a] = [@ EXCEPT !.l = h[b].l, !.r = h[b].r],
                      ![b] = [@ EXCEPT !.l = h[a].l, !.r = h[a].r]]
  IN  UpdAunt(UpdAunt(h1, a), b)

\* transferNiece: b's nieces go to a
TransferNiece(h, a, b) ==
  LET h1 == [h EXCEPT ![a] = [@ EXCEPT !.l = h[b].l, !.r = h[b].r],
                      ![b] = [@ EXCEPT !.l = Nil, !.r = Nil]]
  IN  UpdAunt(h1, a)

\* transferAunt: b's aunt becomes a's aunt (b keeps its own aunt field)
TransferAunt(h, a, b) ==
  LET aa == h[a].aunt
      h1 == IF aa = Nil THEN h
            ELSE IF h[aa].l = a THEN Set(h, aa, "l", Nil)
            ELSE IF h[aa].r = a THEN Set(h, aa, "r", Nil) ELSE h
      ba == h1[b].aunt
      h2 == IF ba = Nil THEN h1
            ELSE IF h1[ba].l = b THEN Set(h1, ba, "l", a)
            ELSE IF h1[ba].r = b THEN Set(h1, ba, "r", a) ELSE h1
      h3 == Set(h2, a, "aunt", ba)
  IN  IF ba # Nil THEN UpdAunt(h3, ba) ELSE h3

DelNode(h, x) ==
  IF x = Nil THEN h
  ELSE LET a  == h[x].aunt
           h1 == IF a = Nil THEN h
                 ELSE IF h[a].r = x THEN Set(h, a, "r", Nil)
                 ELSE IF h[a].l = x THEN Set(h, a, "l", Nil) ELSE h
           h2 == IF h1[x].l # Nil THEN Set(h1, h1[x].l, "aunt", Nil) ELSE h1
           h3 == IF h2[x].r # Nil THEN Set(h2, h2[x].r, "aunt", Nil) ELSE h2
       IN  [h3 EXCEPT ![x] = Node(h3[x].data, Nil, Nil, Nil)]

GetSibling(h, x) ==
  LET a == h[x].aunt IN
  IF a = Nil THEN Nil ELSE IF h[a].l = x THEN h[a].r ELSE h[a].l

GetParent(h, x) ==
  LET a == h[x].aunt IN
  IF a = Nil THEN Nil
  ELSE IF h[a].aunt = Nil THEN a
  ELSE LET g == h[a].aunt IN IF h[g].l = a THEN h[g].r ELSE h[g].l

\* <<left child, right child>>
GetChildren(h, x) ==
  IF h[x].aunt = Nil THEN <<h[x].l, h[x].r>>
  ELSE LET s == GetSibling(h, x) IN <<h[s].l, h[s].r>>

RECURSIVE HashToRoot(_, _)
HashToRoot(h, x) ==
  IF x = Nil THEN h
  ELSE LET c  == GetChildren(h, x)
           h1 == Set(h, x, "data", H(h[c[1]].data, h[c[2]].data))
       IN  HashToRoot(h1, GetParent(h1, x))

(***************************************************************************)
(* Walking from a root to a position: the children of a position are held  *)
(* by the node at its sibling (by the node itself if it is a root).        *)
(***************************************************************************)
RootIndex(x, h) == CHOOSE i \in 1..PopCount(x) : HeightSeq(x)[i] = h

RECURSIVE At(_, _, _, _)
At(h, rts, x, p) ==
  IF IsRoot(x, p) THEN rts[RootIndex(x, p.row)]
  ELSE LET q      == Par(p)
           holder == IF IsRoot(x, q) THEN At(h, rts, x, q) ELSE At(h, rts, x, Sib(q))
       IN  IF holder = Nil THEN Nil
           ELSE IF IsLeft(p) THEN h[holder].l ELSE h[holder].r

(***************************************************************************)
(* pollard.go                                                              *)
(***************************************************************************)
DeleteRoot(h, rts, x, del) ==
  LET r  == rts[RootIndex(x, del.row)]
      h1 == IF h[r].l # Nil THEN Set(h, h[r].l, "aunt", Nil) ELSE h
      h2 == IF h1[r].r # Nil THEN Set(h1, h1[r].r, "aunt", Nil) ELSE h1
      h3 == DelNode(DelNode(h2, h2[r].l), h2[r].r)              \* chop
  IN  [h3 EXCEPT ![r] = Node(Empty, Nil, Nil, Nil)]

DeleteSingle(h, rts, x, del) ==
  LET fromNode    == At(h, rts, x, Sib(del))
      fromNodeSib == At(h, rts, x, del)
      toNode      == GetParent(h, fromNodeSib)
      toSib       == h[fromNodeSib].aunt
      moved ==
        IF h[toNode].aunt # Nil
        THEN LET h1 == TransferAunt(h, fromNode, toNode)
                 h2 == TransferNiece(h1, fromNode, toNode)
                 h3 == IF PVariant = "nochildren" THEN h2 ELSE TransferNiece(h2, toSib, fromNodeSib)
             IN  UpdAunt(h3, h3[toNode].aunt)
        ELSE LET h1 == [h EXCEPT ![toNode] = h[fromNode]]          \* *toNode = *fromNode
                 h2 == TransferNiece(h1, toNode, fromNodeSib)
                 h3 == UpdAunt(h2, toNode)
             IN  DelNode(h3, fromNode)
      h4 == DelNode(moved, fromNodeSib)
      to == Par(del)
  IN  IF IsRoot(x, to) THEN Set(h4, toNode, "aunt", Nil)
      ELSE LET parentNode == GetParent(h4, toNode)
               sibOfParent == GetSibling(h4, parentNode)
               h5 == Set(h4, toNode, "aunt", IF sibOfParent = Nil THEN parentNode ELSE sibOfParent)
           IN  HashToRoot(h5, parentNode)

RECURSIVE DeTwin(_)
DeTwin(T) ==
  IF \E p \in T : IsLeft(p) /\ Sib(p) \in T
  THEN LET p == CHOOSE q \in T : IsLeft(q) /\ Sib(q) \in T
       IN  DeTwin((T \ {p, Sib(p)}) \cup {Par(p)})
  ELSE T

RECURSIVE RemoveAll(_, _, _, _)
RemoveAll(h, rts, x, ts) ==
  IF ts = <<>> THEN h
  ELSE LET del == Head(ts)
           h1  == IF IsRoot(x, del) THEN DeleteRoot(h, rts, x, del) ELSE DeleteSingle(h, rts, x, del)
       IN  RemoveAll(h1, rts, x, Tail(ts))

\* calculateNewRoot: <<heap, roots, node, next id>> after climbing from height g
RECURSIVE Climb(_, _, _, _, _, _)
Climb(h, rts, x, node, id, g) ==
  IF Bit(x, g)
  THEN LET root == rts[Len(rts)]
           rest == SubSeq(rts, 1, Len(rts) - 1)
       IN  IF h[root].data = Empty THEN Climb(h, rest, x, node, id, g + 1)
           ELSE LET h1 == SwapNieces(h, root, node)
                    h2 == New(h1, id, Node(H(h1[root].data, h1[node].data), root, node, Nil))
                    h3 == UpdAunt(h2, id)
                IN  Climb(h3, rest, x, id, id + 1, g + 1)
  ELSE <<h, Append(rts, node), id>>

RECURSIVE AddMany(_, _, _, _, _)
AddMany(h, rts, x, id, k) ==
  IF k = 0 THEN <<h, rts, id>>
  ELSE LET h1 == New(h, id, Node(Leaf(x), Nil, Nil, Nil))
           c  == Climb(h1, rts, x, id, id + 1, 0)
       IN  AddMany(c[1], c[2], x + 1, c[3], k - 1)

PInit == n = 0 /\ live = {} /\ hp = <<>> /\ roots = <<>> /\ nxt = 1

PBlock ==
  \E D \in SUBSET live, k \in 0..MaxAdds :
    /\ n + k <= MaxN
    /\ LET nds == Nodes(n, live)
           T   == DeTwin({PosOfIn(nds, s) : s \in D})
           h1  == RemoveAll(hp, roots, n, SortPos(T))
           r   == AddMany(h1, roots, n, nxt, k)
       IN  /\ hp' = r[1] /\ roots' = r[2] /\ nxt' = r[3]
    /\ n' = n + k
    /\ live' = (live \ D) \cup (n..(n + k - 1))

PSpec == PInit /\ [][PBlock]_pvars

(***************************************************************************)
(* Refinement                                                              *)
(***************************************************************************)
AllPositions == {Pos(r, i) : r \in 0..TreeRows(n), i \in 0..(2^(TreeRows(n)) - 1)}
InTrees      == {p \in AllPositions : InForest(n, p) /\ \E q \in AncUp(n, p) : IsRoot(n, q)}

PollardRefines ==
  LET nds == Nodes(n, live) IN
  /\ Len(roots) = PopCount(n)
  /\ \A p \in InTrees :
        LET x == At(hp, roots, n, p)
            v == NodeAtIn(nds, p)
        IN  IF IsRoot(n, p) THEN x # Nil /\ hp[x].data = v
            ELSE IF v = Empty THEN x = Nil
            ELSE x # Nil /\ hp[x].data = v

AuntOK ==
  \A p \in InTrees :
    LET x == At(hp, roots, n, p) IN
    x # Nil =>
      IF IsRoot(n, p) THEN hp[x].aunt = Nil
      ELSE hp[x].aunt = (IF IsRoot(n, Par(p)) THEN At(hp, roots, n, Par(p))
                         ELSE At(hp, roots, n, Sib(Par(p))))
=============================================================================
