------------------------------- MODULE Partial -------------------------------
(***************************************************************************)
(* A non-full map forest (property C09).  Abstract state: (n, live) as in  *)
(* Forest plus cached \subseteq live, the leaves the instance was asked to *)
(* remember and has not deleted or pruned since.                           *)
(*                                                                         *)
(* What the instance may and must store is a relation, not a function:     *)
(*    StoredLower(cached) \subseteq stored \subseteq StoredUpper(cached)   *)
(* and every stored position holds the true hash NodeAt(position).  The    *)
(* leaf index (hash -> position) is exact: {Leaf(s) -> PosOf(s)}.          *)
(***************************************************************************)
EXTENDS Forest, Json

CONSTANTS MaxN, MaxAdds, MaxStack, MaxUnd, MaxFr, MaxRst, Acts,
          TrackLast,  \* TRUE: the kind of the last action is part of the state (see Step)
          WideExtra,  \* wide configurations: 1 = the remembered run may be accompanied by one more remembered leaf
          MinN        \* wide configurations (MinN < 99): every forest of MinN..MaxN-1 leaves, all alive, in which the
                      \* instance remembers a run of consecutive leaves (plus at most one more) is an initial state;
                      \* one block from each (deleting one remembered leaf or the remembered leaves of one aligned
                      \* subtree) and its undo

VARIABLES n, live, cached, stack, marks, hist

vars == <<n, live, cached, stack, marks, hist>>
View == <<n, live, cached, stack, marks>>

JPos(p)    == <<p.row, p.idx>>
JPosSeq(s) == [i \in 1..Len(s) |-> JPos(s[i])]
JProof(pr) == [t |-> JPosSeq(pr.t), p |-> pr.p]
AscSeq(S)  == SetToSortSeq(S, <)
NodeLess(a, b) == PosLess(NodePos(a), NodePos(b))

Emit(step, expect) ==
  PrintT("@@" \o ToJson([fam |-> "partial", hist |-> hist, step |-> step, expect |-> expect]))

(***************************************************************************)
(* Bounds on the stored set                                                *)
(***************************************************************************)
\* RootSet, StoredLower and StoredUpper are defined in Forest.tla

Obs(x, lv, C) ==
  LET nds == Nodes(x, lv)
      sq  == SetToSortSeq(nds, NodeLess)
      cs  == AscSeq(C)
  IN  [ n      |-> x,
        roots  |-> Roots(x, lv),
        cached |-> cs,
        leaves |-> [i \in 1..Len(cs) |->
                      LET p == PosOfIn(nds, cs[i]) IN <<cs[i], p.row, p.idx>>],
        nodes  |-> [i \in 1..Len(sq) |-> <<sq[i].row, sq[i].idx, sq[i].hash>>],
        lower  |-> JPosSeq(SortPos(StoredLower(x, nds, C))),
        upper  |-> JPosSeq(SortPos(StoredUpper(x, nds, C))),
        \* the canonical proof of everything it remembers
        pf     |-> JProof(CanonProofIn(x, nds, cs)) ]

Wide == MinN < 99

\* the block that builds an all-live forest of x leaves remembering C
InitStep(x, C) ==
  [ a |-> "mod", d |-> <<>>, k |-> x, rem |-> AscSeq(C),
    pf |-> JProof(CanonProof(0, {}, <<>>)), pre |-> Roots(0, {}), post |-> Roots(x, 0..(x - 1)) ]

Runs(x) == {a..b : a \in 0..(x - 1), b \in 0..(x - 1)} \ {{}}
Aligned(x) == UNION {{(i * (2^h))..(i * (2^h) + 2^h - 1) : i \in 0..(x \div (2^h))} : h \in 1..TreeRows(x)}

Init == /\ stack = <<>>
        /\ marks = [und |-> 0, fr |-> 0, rst |-> 0, last |-> "-"]
        /\ IF ~Wide
           THEN n = 0 /\ live = {} /\ cached = {} /\ hist = <<>>
           ELSE /\ n \in MinN..(MaxN - 1)
                /\ live = 0..(n - 1)
                /\ cached \in {R \cup E : R \in Runs(n), E \in {{}} \cup (IF WideExtra = 1 THEN {{e} : e \in 0..(n - 1)} ELSE {})}
                /\ hist = <<InitStep(n, cached)>>

Push(rec) == IF MaxStack = 0 THEN <<>>
             ELSE SubSeq(<<rec>> \o stack, 1, IF Len(stack) + 1 > MaxStack THEN MaxStack ELSE Len(stack) + 1)

\* Two histories that lead to the same abstract state may leave an
\* implementation in different hidden states (a stale flag, a node kept too
\* long).  Breadth-first search keeps one witness history per state; with
\* TrackLast the kind of the last action is part of the state, so every
\* abstract state gets one witness per kind of action that can lead to it,
\* and the behaviour is continued from each of them.
Step(step, n2, lv2, c2, stk2, m2) ==
  /\ n' = n2 /\ live' = lv2 /\ cached' = c2 /\ stack' = stk2
  /\ marks' = [m2 EXCEPT !.last = IF TrackLast THEN step.a ELSE "-"]
  /\ hist' = Append(hist, step)
  /\ Emit(step, Obs(n2, lv2, c2))

\* a block: only remembered leaves can be deleted from a partial forest
DelChoices ==
  IF ~Wide THEN SUBSET cached
  ELSE {D \in SUBSET cached : Cardinality(D) <= 1}
         \cup {A \cap cached : A \in {B \in Aligned(n) : B \subseteq 0..(n - 1)}}

Modify ==
  /\ "mod" \in Acts
  /\ (IF Wide THEN stack = <<>> /\ marks.und = 0 ELSE TRUE)
  /\ \E D \in DelChoices, k \in 0..MaxAdds :
       /\ n + k <= MaxN
       /\ \E Rem \in (IF Wide THEN {{}} ELSE SUBSET (0..(k-1))) :
            LET n2  == n + k
                lv2 == (live \ D) \cup (n..(n + k - 1))
                c2  == (cached \ D) \cup {n + i : i \in Rem}
                ord == AscSeq(D)
                step == [ a |-> "mod", d |-> ord, k |-> k, rem |-> AscSeq(Rem),
                          pf |-> JProof(CanonProof(n, live, ord)),
                          pre |-> Roots(n, live), post |-> Roots(n2, lv2) ]
            IN  Step(step, n2, lv2, c2, Push([n |-> n, live |-> live]), marks)

\* a block that has to be refused: it deletes a live leaf the instance does not
\* remember.  A refused call changes nothing (every later observation is that of
\* the unchanged state).
BadModify ==
  /\ "badmod" \in Acts
  /\ \E D \in SUBSET live \ {{}} :
       /\ ~(D \subseteq cached) /\ Cardinality(D) <= 2
       /\ \E ord \in {AscSeq(D), [i \in 1..Cardinality(D) |-> AscSeq(D)[Cardinality(D) + 1 - i]]} :
            LET step == [ a |-> "badmod", d |-> ord, k |-> 1, rem |-> <<0>>,
                          pf |-> JProof(CanonProof(n, live, ord)),
                          pre |-> Roots(n, live), post |-> Roots(n, live) ]
            IN  Step(step, n, live, cached, stack, marks)

\* a remembering verification that has to be refused: the honest proof of live
\* leaves with one hash replaced by a fresh value (the first proof hash, or the
\* first leaf hash).  A refused call changes nothing: whatever the call had
\* stored before it found out must be gone again.
BadVerify ==
  /\ "badvrem" \in Acts
  /\ \E S \in SUBSET live \ {{}} :
       /\ Cardinality(S) <= 2
       /\ LET ord == AscSeq(S)
              pf  == CanonProof(n, live, ord)
          IN  \E kind \in {"proofhash", "leafhash"} :
                /\ (IF kind = "proofhash" THEN Len(pf.p) > 0 ELSE TRUE)
                /\ LET step == [ a |-> "badvrem", s |-> ord, pf |-> JProof(pf), bad |-> kind,
                                 post |-> Roots(n, live) ]
                   IN  Step(step, n, live, cached, stack, marks)

\* Verify(hashes, proof, remember = true) of an arbitrary set of live leaves
VerifyRemember ==
  /\ "vrem" \in Acts
  /\ \E S \in SUBSET live \ {{}} :
       LET ord  == AscSeq(S)
           step == [ a |-> "vrem", s |-> ord, pf |-> JProof(CanonProof(n, live, ord)),
                     post |-> Roots(n, live) ]
       IN  Step(step, n, live, cached \cup S, stack, marks)

\* Ingest(hashes, proof): the same effect without verification
Ingest ==
  /\ "ingest" \in Acts
  /\ \E S \in SUBSET live \ {{}} :
       LET ord  == AscSeq(S)
           step == [ a |-> "ingest", s |-> ord, pf |-> JProof(CanonProof(n, live, ord)),
                     post |-> Roots(n, live) ]
       IN  Step(step, n, live, cached \cup S, stack, marks)

\* Prune(hashes): any leaf hashes ever added (cached, uncached, dead)
Prune ==
  /\ "prune" \in Acts
  /\ \E S \in SUBSET (0..(n-1)) \ {{}} :
       /\ (IF S \cap cached # {} THEN TRUE ELSE Cardinality(S) = 1)
       /\ LET step == [ a |-> "prune", s |-> AscSeq(S), post |-> Roots(n, live) ]
          IN  Step(step, n, live, cached \ S, stack, marks)

\* Undo of the newest block: the added leaves go, the deleted ones come back
\* remembered
Undo ==
  /\ "undo" \in Acts
  /\ stack # <<>>
  /\ marks.und < MaxUnd
  /\ LET prev == Head(stack)
         D    == prev.live \ live
         ord  == AscSeq(D)
         c2   == (cached \cap (0..(prev.n - 1))) \cup D
         step == [ a |-> "undo", d |-> ord, k |-> n - prev.n,
                   pf |-> JProof(CanonProof(prev.n, prev.live, ord)),
                   pre |-> Roots(prev.n, prev.live), post |-> Roots(prev.n, prev.live) ]
     IN  Step(step, prev.n, prev.live, c2, Tail(stack), [marks EXCEPT !.und = @ + 1])

\* a new instance created from the bare roots of the current state
FromRoots ==
  /\ "fromroots" \in Acts
  /\ marks.fr < MaxFr
  /\ LET step == [ a |-> "fromroots", n |-> n, roots |-> Roots(n, live), post |-> Roots(n, live) ]
     IN  Step(step, n, live, {}, <<>>, [marks EXCEPT !.fr = @ + 1])

\* serialize + restore into a fresh instance; the behaviour continues on the
\* restored instance (C13).  A stuttering step on the abstract state.
Restore ==
  /\ "restore" \in Acts
  /\ marks.rst < MaxRst
  /\ LET step == [ a |-> "restore", post |-> Roots(n, live) ]
     IN  Step(step, n, live, cached, stack, [marks EXCEPT !.rst = @ + 1])

\* asking the instance which proof positions it lacks for proving the live
\* leaves B (C14).  The answer depends on what it stores, which the
\* specification only bounds:  ProofPos(B) \ StoredUpper  \subseteq  missing
\* \subseteq  ProofPos(B) \ StoredLower;  given the stored set it is exact:
\* missing = ProofPos(B) \ stored.
\* wide configurations: request sets of one or two leaves (the forests are large)
MissChoices == IF ~Wide THEN SUBSET live \ {{}} ELSE {B \in SUBSET live : Cardinality(B) \in 1..2}

MissQ ==
  /\ "missq" \in Acts
  /\ \E B \in MissChoices :
       LET nds  == Nodes(n, live)
           ord  == AscSeq(B)
           pp   == ProofPos(n, {PosOfIn(nds, b) : b \in B})
           step == [ a |-> "missq", s |-> ord, pf |-> JProof(CanonProofIn(n, nds, ord)), post |-> Roots(n, live) ]
       IN  /\ UNCHANGED vars
           /\ Emit(step, Obs(n, live, cached) @@ [pp |-> JPosSeq(pp)])

\* Undo of the newest block with a proof that lacks its hashes: a partial forest has to
\* refuse it.  What a refused Undo leaves behind is not specified (the code refuses after it
\* has taken the additions back), so the behaviour is not continued from here: the step is
\* emitted like a query, and the replay only checks that the call returns and that the
\* forest still answers afterwards (no lock is left behind).
BadUndo ==
  /\ "badundo" \in Acts
  /\ stack # <<>>
  /\ LET prev == Head(stack)
         D    == prev.live \ live
         ord  == AscSeq(D)
         pf   == CanonProof(prev.n, prev.live, ord)
         step == [ a |-> "badundo", d |-> ord, k |-> n - prev.n, pf |-> JProof(pf),
                   pre |-> Roots(prev.n, prev.live), post |-> Roots(n, live) ]
     IN  /\ Len(pf.p) > 0
         /\ UNCHANGED vars
         /\ Emit(step, Obs(n, live, cached))

Next == Modify \/ BadModify \/ BadVerify \/ BadUndo \/ VerifyRemember \/ Ingest \/ Prune \/ Undo \/ FromRoots \/ Restore \/ MissQ
Spec == Init /\ [][Next]_vars

TypeOK == n \in 0..MaxN /\ live \subseteq 0..(n-1) /\ cached \subseteq live

(***************************************************************************)
(* Design-level theorem: the lower bound suffices to prove every subset of *)
(* the remembered leaves ("can always prove its cache"), and the bounds    *)
(* are consistent.                                                         *)
(***************************************************************************)
BoundsOK ==
  LET nds == Nodes(n, live)
      lo  == StoredLower(n, nds, cached)
      up  == StoredUpper(n, nds, cached)
  IN  /\ lo \subseteq up
      /\ \A S \in SUBSET cached :
            ProofPosSet(n, {PosOfIn(nds, s) : s \in S}) \subseteq lo
      /\ \A p \in up : IsRoot(n, p) \/ NodeAtIn(nds, p) # Empty


\* state constraint for the wide undo configurations: few live leaves in many
\* slots; a denser state is explored only far enough to undo the block that
\* led to it
SparseUndo == \/ Cardinality(live) <= 3
              \/ (stack # <<>> /\ Cardinality(Head(stack).live) <= 3 /\ marks.und = 0)

=============================================================================
