---------------------------- MODULE SerialTrace ----------------------------
(***************************************************************************)
(* Trace validation for C13: every fault run recorded from the real code   *)
(* ({"ev":"restore"|"write", "L":.., "t":.., "res":.., "same":.., "count"})*)
(* must be a step of the specification, i.e. satisfy the API-level         *)
(* relation of Serial.tla.                                                 *)
(***************************************************************************)
EXTENDS Integers, Sequences, Json, TLC, TLCExt

VARIABLE l
TraceLog == ndJsonDeserialize("trace.ndjson")

RestoreOutcome(L, t, res, same, count) ==
  /\ res \in {"ok", "err"}
  /\ (t = L => res = "ok" /\ same /\ count = L)
  /\ (t < L => res = "err" \/ (res = "ok" /\ same))

WriteOutcome(L, f, res, count) ==
  /\ res \in {"ok", "err"}
  /\ (f < L => res = "err")
  /\ (f >= L => res = "ok" /\ count = L)

EventOK(e) ==
  IF e.ev = "restore" THEN RestoreOutcome(e.L, e.t, e.res, e.same, e.count)
  ELSE IF e.ev = "write" THEN WriteOutcome(e.L, e.t, e.res, e.count)
  ELSE FALSE

TraceInit == l = 1 /\ TLCSet(1, 1)
TraceNext == /\ l <= Len(TraceLog) /\ EventOK(TraceLog[l]) /\ l' = l + 1
TraceSpec == TraceInit /\ [][TraceNext]_l
TraceProgress == TLCSet(1, IF l > TLCGet(1) THEN l ELSE TLCGet(1))
TraceAccepted ==
  IF TLCGet(1) = Len(TraceLog) + 1 THEN TRUE
  ELSE /\ PrintT("TRACE-REJECTED-AT " \o ToString(TLCGet(1)))
       /\ PrintT(TraceLog[TLCGet(1)])
       /\ FALSE
=============================================================================
