------------------------------- MODULE Forest -------------------------------
(***************************************************************************)
(* Reference semantics of the Utreexo accumulator.                         *)
(*                                                                         *)
(* The abstract state of an accumulator is (x, lv):                        *)
(*   x  = number of leaves ever added (insertion slots 0 .. x-1)           *)
(*   lv = the set of slots whose leaf is still alive                       *)
(* Everything a user can observe - roots, node hashes, leaf positions,     *)
(* canonical proofs - is defined here as a pure function of (x, lv), with  *)
(* hashes drawn from a free term algebra (strings), so that "barring a     *)
(* hash collision" holds by construction.  Nothing in this module is a     *)
(* transcription of the implementation: it is the property text of C01     *)
(* ("a subtree without survivors contributes nothing, a subtree whose      *)
(* sibling has no survivors stands in for its parent, a tree without       *)
(* survivors has the all-zero root") plus the row/offset geometry of C16.  *)
(*                                                                         *)
(* Positions are records [row, idx] (idx = offset inside the row), so that *)
(* they do not depend on the allocated height of the forest.               *)
(***************************************************************************)
EXTENDS Integers, Sequences, FiniteSets, SequencesExt, TLC

(***************************************************************************)
(* Hash terms                                                              *)
(***************************************************************************)
Empty   == "0"
Leaf(s) == "L" \o ToString(s)
H(l, r) == "(" \o l \o "," \o r \o ")"
Junk(j) == "J" \o ToString(j)

(***************************************************************************)
(* Arithmetic on leaf counts                                               *)
(***************************************************************************)
MAXH == 14                       \* no model uses more than 2^14 leaves

Bit(x, h)       == (x \div (2^h)) % 2 = 1
Heights(x)      == {h \in 0..MAXH : Bit(x, h)}
TreeStart(x, h) == (x \div (2^(h+1))) * (2^(h+1))
TreeRows(x)     == IF x <= 1 THEN 0 ELSE CHOOSE r \in 1..(MAXH+1) : 2^(r-1) < x /\ x <= 2^r
PopCount(x)     == Cardinality(Heights(x))

\* heights of the trees, highest first (the order of the root list)
HeightSeq(x)    == SetToSortSeq(Heights(x), LAMBDA a, b : a > b)

(***************************************************************************)
(* Geometry of positions                                                   *)
(***************************************************************************)
Pos(r, i)  == [row |-> r, idx |-> i]
Par(p)     == Pos(p.row + 1, p.idx \div 2)
LChild(p)  == Pos(p.row - 1, 2 * p.idx)
RChild(p)  == Pos(p.row - 1, 2 * p.idx + 1)
Sib(p)     == Pos(p.row, IF p.idx % 2 = 0 THEN p.idx + 1 ELSE p.idx - 1)
IsLeft(p)  == p.idx % 2 = 0
RootPos(x, h) == Pos(h, TreeStart(x, h) \div (2^h))
IsRoot(x, p)  == p.row <= MAXH /\ Bit(x, p.row) /\ p = RootPos(x, p.row)
RootPosSeq(x) == [i \in 1..PopCount(x) |-> RootPos(x, HeightSeq(x)[i])]

\* numeric value of a position in a forest allocated for R rows
Enc(p, R)  == 2^(R+1) - 2^(R+1-p.row) + p.idx
PosLess(p, q) == p.row < q.row \/ (p.row = q.row /\ p.idx < q.idx)
SortPos(S) == SetToSortSeq(S, PosLess)

\* position p belongs to some tree of a forest of x leaves (every leaf slot
\* below it is < x)
InForest(x, p) == p.row <= TreeRows(x) /\ (p.idx + 1) * (2^p.row) <= x

\* strict ancestor relation
RECURSIVE IsAnc(_, _)
IsAnc(a, p) == p.row < a.row /\ (Par(p) = a \/ IsAnc(a, Par(p)))

(***************************************************************************)
(* Values: the hash of the subtree covering slots lo .. lo+2^h-1           *)
(***************************************************************************)
Alive(lv, lo, w) == \E s \in lo..(lo + w - 1) : s \in lv

RECURSIVE Val(_, _, _)
Val(lv, lo, h) ==
  IF h = 0 THEN (IF lo \in lv THEN Leaf(lo) ELSE Empty)
  ELSE LET l == Val(lv, lo, h-1)
           r == Val(lv, lo + 2^(h-1), h-1)
       IN  IF l = Empty THEN r ELSE IF r = Empty THEN l ELSE H(l, r)

Roots(x, lv) == [i \in 1..PopCount(x) |->
                   LET h == HeightSeq(x)[i] IN Val(lv, TreeStart(x, h), h)]

(***************************************************************************)
(* Placement: which node sits at which position.                           *)
(* A node is [row, idx, hash, slot] with slot = -1 for internal nodes.     *)
(***************************************************************************)
RECURSIVE Place(_, _, _, _, _)
Place(lv, lo, h, row, idx) ==
  IF h = 0
  THEN IF lo \in lv THEN {[row |-> row, idx |-> idx, hash |-> Leaf(lo), slot |-> lo]} ELSE {}
  ELSE LET half == 2^(h-1)
           la   == Alive(lv, lo, half)
           ra   == Alive(lv, lo + half, half)
       IN  IF la /\ ra
           THEN {[row |-> row, idx |-> idx, hash |-> Val(lv, lo, h), slot |-> -1]}
                  \cup Place(lv, lo, h-1, row-1, 2*idx)
                  \cup Place(lv, lo + half, h-1, row-1, 2*idx+1)
           ELSE IF la THEN Place(lv, lo, h-1, row, idx)
           ELSE IF ra THEN Place(lv, lo + half, h-1, row, idx)
           ELSE {}

Nodes(x, lv) == UNION { Place(lv, TreeStart(x, h), h, h, TreeStart(x, h) \div (2^h))
                          : h \in Heights(x) }

NodePos(nd)      == Pos(nd.row, nd.idx)
NodeAtIn(nds, p) == IF \E nd \in nds : NodePos(nd) = p
                    THEN (CHOOSE nd \in nds : NodePos(nd) = p).hash ELSE Empty
PosOfIn(nds, s)  == NodePos(CHOOSE nd \in nds : nd.slot = s)
NodeAt(x, lv, p) == NodeAtIn(Nodes(x, lv), p)
PosOf(x, lv, s)  == PosOfIn(Nodes(x, lv), s)

(***************************************************************************)
(* Proof positions (purely geometric)                                      *)
(***************************************************************************)
RECURSIVE AncUp(_, _)
AncUp(x, p) == IF IsRoot(x, p) \/ p.row >= TreeRows(x) THEN {p}
               ELSE {p} \cup AncUp(x, Par(p))
Anc(x, T)      == UNION {AncUp(x, p) : p \in T}
ProofPosSet(x, T) == LET A == Anc(x, T)
                     IN  {Sib(p) : p \in {q \in A : ~IsRoot(x, q)}} \ A
ProofPos(x, T) == SortPos(ProofPosSet(x, T))
\* positions whose hash can be computed from the targets and the proof
Computable(x, T) == Anc(x, T) \ T

\* the tree (index into the root list, 1 = highest) a position belongs to
RootAbove(x, p) == CHOOSE q \in AncUp(x, p) : IsRoot(x, q)
TreeIndexOf(x, p) == CHOOSE i \in 1..PopCount(x) : RootPosSeq(x)[i] = RootAbove(x, p)

(***************************************************************************)
(* Canonical proof of the live leaves ord[1], ord[2], ... (request order)  *)
(***************************************************************************)
CanonProofIn(x, nds, ord) ==
  LET tg == [i \in 1..Len(ord) |-> PosOfIn(nds, ord[i])]
      pp == ProofPos(x, {tg[i] : i \in 1..Len(ord)})
  IN  [t |-> tg, p |-> [i \in 1..Len(pp) |-> NodeAtIn(nds, pp[i])]]
CanonProof(x, lv, ord) == CanonProofIn(x, Nodes(x, lv), ord)

TreesOf(x, lv, S) == {TreeIndexOf(x, PosOf(x, lv, s)) : s \in S}

\* a claim "hash hs[i] sits at position tg[i]" is true
ClaimsTrue(x, lv, hs, tg) ==
  /\ Len(hs) = Len(tg)
  /\ \A i \in 1..Len(hs) : hs[i] # Empty /\ NodeAt(x, lv, tg[i]) = hs[i]

(***************************************************************************)
(* Update data of a block (C11): what deleting the leaves D and then       *)
(* appending k leaves changes, as a roots-only verifier must report it.    *)
(***************************************************************************)
\* live slots stored at or below position p
SlotsUnder(nds, p) ==
  {nd.slot : nd \in {m \in nds : m.slot # -1 /\ (NodePos(m) = p \/ IsAnc(p, NodePos(m)))}}

\* the leaf count at which the tree of height h of a forest of x leaves is
\* merged into a bigger tree by further additions
MergeAt(x, h) == CHOOSE m \in x..(x + 2^(h+1) - 1) : m % (2^(h+1)) = 2^(h+1) - 1

\* heights (ascending = order of destruction) of the all-dead trees that k
\* additions to (x, lvd) overwrite
DestroyedHeights(x, lvd, k) ==
  SetToSortSeq({h \in Heights(x) : ~Alive(lvd, TreeStart(x, h), 2^h) /\ MergeAt(x, h) - x < k}, <)

UpdateDataRef(x, lv, D, k) ==
  LET nds  == Nodes(x, lv)
      lvd  == lv \ D
      x2   == x + k
      lv2  == lvd \cup (x..(x2 - 1))
      nds2 == Nodes(x2, lv2)
      R    == TreeRows(x)
      A    == SortPos(Anc(x, {PosOfIn(nds, s) : s \in D}))
      dh   == DestroyedHeights(x, lvd, k)
      created == {nd \in nds2 : nd.slot = -1 /\
                     \E s \in x..(x2 - 1) : s \in SlotsUnder(nds2, NodePos(nd))}
      kids == {nd \in nds2 : \E c \in created :
                     NodePos(nd) \in {LChild(NodePos(c)), RChild(NodePos(c))}}
      adds == SetToSortSeq({nd \in nds2 : nd.slot >= x} \cup kids,
                           LAMBDA a, b : PosLess(NodePos(a), NodePos(b)))
  IN  [ prev |-> x,
        \* positions in post-block coordinates, in order of destruction
        td   |-> [i \in 1..Len(dh) |-> RootPos(x, dh[i])],
        \* <<position (pre-block), hash of the subtree once D is gone>>
        ndel |-> [i \in 1..Len(A) |-> <<A[i], Val(SlotsUnder(nds, A[i]) \ D, 0, R)>>],
        \* <<final position (post-block), hash>>
        nadd |-> [i \in 1..Len(adds) |-> <<NodePos(adds[i]), adds[i].hash>>] ]

(***************************************************************************)
(* What a partial forest that remembers the leaves C must and may store    *)
(* (C09): a relation, not a function of the abstract state.                *)
(***************************************************************************)
RootSet(x) == {RootPos(x, h) : h \in Heights(x)}

\* must be stored: the roots, the remembered leaves and, for every remembered
\* leaf, the siblings along its path (so that any subset can be proven)
StoredLower(x, nds, C) ==
  RootSet(x) \cup {PosOfIn(nds, c) : c \in C}
             \cup UNION {ProofPosSet(x, {PosOfIn(nds, c)}) : c \in C}

\* may be stored in addition: the ancestors of the remembered leaves
StoredUpper(x, nds, C) ==
  StoredLower(x, nds, C) \cup Anc(x, {PosOfIn(nds, c) : c \in C})

=============================================================================
