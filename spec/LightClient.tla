----------------------------- MODULE LightClient -----------------------------
(***************************************************************************)
(* A light client: it holds the roots-only verifier state, one cached      *)
(* proof and the hashes of the leaves the proof covers (`held').  Per      *)
(* block it receives the block's targets, the added hashes, the indexes of *)
(* the additions it wants to remember and the update data returned by the  *)
(* verifier-state update (C07); a block can be undone with the block's     *)
(* data (C08).                                                             *)
(*                                                                         *)
(* Abstract state: (n, live) as in Forest, plus held \subseteq live.       *)
(* What the client must hold afterwards is a pure function of that state:  *)
(* the pairs (Leaf(s), PosOf(s)) for s \in held and the canonical proof of *)
(* held.                                                                   *)
(***************************************************************************)
EXTENDS Forest, Json

CONSTANTS MaxN, MaxAdds, MaxStack, MaxUnd, Acts

VARIABLES n, live, held, stack, und, hist

vars == <<n, live, held, stack, und, hist>>
View == <<n, live, held, stack, und>>

JPos(p)    == <<p.row, p.idx>>
JProof(pr) == [t |-> [i \in 1..Len(pr.t) |-> JPos(pr.t[i])], p |-> pr.p]
AscSeq(S)  == SetToSortSeq(S, <)
JUpd(u)    == [ prev |-> u.prev,
                td   |-> [i \in 1..Len(u.td) |-> JPos(u.td[i])],
                ndel |-> [i \in 1..Len(u.ndel) |-> <<u.ndel[i][1].row, u.ndel[i][1].idx, u.ndel[i][2]>>],
                nadd |-> [i \in 1..Len(u.nadd) |-> <<u.nadd[i][1].row, u.nadd[i][1].idx, u.nadd[i][2]>>] ]

Emit(step, expect) ==
  PrintT("@@" \o ToJson([fam |-> "light", hist |-> hist, step |-> step, expect |-> expect]))

\* what the client holds in abstract state (x, lv, hd): its leaves in
\* ascending slot order, each with its position, and the canonical proof
Holding(x, lv, hd) == [held |-> AscSeq(hd), cp |-> JProof(CanonProof(x, lv, AscSeq(hd)))]

Init == n = 0 /\ live = {} /\ held = {} /\ stack = <<>> /\ und = 0 /\ hist = <<>>

Push(rec) == IF MaxStack = 0 THEN <<>>
             ELSE SubSeq(<<rec>> \o stack, 1, IF Len(stack) + 1 > MaxStack THEN MaxStack ELSE Len(stack) + 1)

Block ==
  /\ "block" \in Acts
  /\ \E D \in SUBSET live, k \in 0..MaxAdds :
       /\ n + k <= MaxN
       /\ \E Rem \in SUBSET (0..(k-1)) :
            LET n2  == n + k
                lv2 == (live \ D) \cup (n..(n + k - 1))
                hd2 == (held \ D) \cup {n + i : i \in Rem}
                ord == AscSeq(D)
                hold == Holding(n2, lv2, hd2)
                step == [ a |-> "block", d |-> ord, k |-> k, rem |-> AscSeq(Rem),
                          pf   |-> JProof(CanonProof(n, live, ord)),
                          pre  |-> Roots(n, live), post |-> Roots(n2, lv2),
                          upd  |-> JUpd(UpdateDataRef(n, live, D, k)),
                          held |-> hold.held, cp |-> hold.cp ]
            IN  /\ n' = n2 /\ live' = lv2 /\ held' = hd2
                /\ stack' = Push([n |-> n, live |-> live])
                /\ und' = und
                /\ hist' = Append(hist, step)
                /\ Emit(step, [n |-> n2, roots |-> Roots(n2, lv2)])

\* undoing the newest block: the client keeps exactly those of its leaves
\* that existed before the block (leaves the block deleted are not restored)
UndoBlock ==
  /\ "undoblock" \in Acts
  /\ stack # <<>>
  /\ und < MaxUnd
  /\ LET prev == Head(stack)
         D    == prev.live \ live
         k    == n - prev.n
         ord  == AscSeq(D)
         hdU  == held \cap (0..(prev.n - 1))
         hold == Holding(prev.n, prev.live, hdU)
         step == [ a |-> "undoblock", d |-> ord, k |-> k,
                   pf   |-> JProof(CanonProof(prev.n, prev.live, ord)),
                   pre  |-> Roots(prev.n, prev.live), post |-> Roots(prev.n, prev.live),
                   upd  |-> JUpd(UpdateDataRef(prev.n, prev.live, D, k)),
                   held |-> hold.held, cp |-> hold.cp ]
     IN  /\ n' = prev.n /\ live' = prev.live /\ held' = hdU
         /\ stack' = Tail(stack)
         /\ und' = und + 1
         /\ hist' = Append(hist, step)
         /\ Emit(step, [n |-> prev.n, roots |-> Roots(prev.n, prev.live)])

Next == Block \/ UndoBlock
Spec == Init /\ [][Next]_vars

TypeOK == n \in 0..MaxN /\ live \subseteq 0..(n-1) /\ held \subseteq live

(***************************************************************************)
(* Design-level theorem for C07 (sufficiency of the block data): every     *)
(* hash of the client's new canonical proof is one of its old proof        *)
(* hashes, one of its old leaf hashes, or is listed in the update data.    *)
(* A light client therefore never needs anything else.  Checked as an      *)
(* action property over every Block transition.                            *)
(***************************************************************************)
HashesOf(pr) == {pr.p[i] : i \in 1..Len(pr.p)}
Sufficient ==
  [][ (n' >= n /\ hist' # hist /\ Len(hist') > 0 /\ hist'[Len(hist')].a = "block") =>
        LET D    == live \ live'
            k    == n' - n
            u    == UpdateDataRef(n, live, D, k)
            old  == CanonProof(n, live, AscSeq(held))
            new  == CanonProof(n', live', AscSeq(held'))
            have == HashesOf(old) \cup {Leaf(s) : s \in held}
                      \cup {u.ndel[i][2] : i \in 1..Len(u.ndel)}
                      \cup {u.nadd[i][2] : i \in 1..Len(u.nadd)}
        IN  HashesOf(new) \subseteq have ]_vars

=============================================================================
