----------------------------- MODULE LightClient -----------------------------
(***************************************************************************)
(* A light client: it holds the roots-only verifier state, one cached      *)
(* proof and the hashes of the leaves the proof covers (`held').  Per      *)
(* block it receives the block's targets, the added hashes, the indexes of *)
(* the additions it wants to remember and the update data returned by the  *)
(* verifier-state update (C07); a block can be undone with the block's     *)
(* data (C08).                                                             *)
(*                                                                         *)
(* Abstract state: (n, live) as in Forest, plus held \subseteq live.       *)
(* What the client must hold afterwards is a pure function of that state:  *)
(* the pairs (Leaf(s), PosOf(s)) for s \in held and the canonical proof of *)
(* held.                                                                   *)
(***************************************************************************)
EXTENDS Forest, Json

CONSTANTS MaxN, MaxAdds, MaxStack, MaxUnd, Acts,
          \* wide configurations (MinN < 99): every (n, live, held) with MinN <= n < MaxN, at most
          \* InitDead dead slots and at most InitHeld held leaves is an initial state; one block from
          \* each (deleting at most one leaf or the live leaves of one aligned subtree, remembering at
          \* most one addition) and its undo
          MinN, InitDead, InitHeld

VARIABLES n, live, held, stack, und, hist,
          tord   \* the order of the client's targets when its proof is the result of a restriction
                 \* (GetProofSubset keeps the caller's order); <<>> otherwise (Update and Undo sort)

vars == <<n, live, held, stack, und, hist, tord>>
View == <<n, live, held, stack, und, tord>>

JPos(p)    == <<p.row, p.idx>>
JProof(pr) == [t |-> [i \in 1..Len(pr.t) |-> JPos(pr.t[i])], p |-> pr.p]
AscSeq(S)  == SetToSortSeq(S, <)
JUpd(u)    == [ prev |-> u.prev,
                td   |-> [i \in 1..Len(u.td) |-> JPos(u.td[i])],
                ndel |-> [i \in 1..Len(u.ndel) |-> <<u.ndel[i][1].row, u.ndel[i][1].idx, u.ndel[i][2]>>],
                nadd |-> [i \in 1..Len(u.nadd) |-> <<u.nadd[i][1].row, u.nadd[i][1].idx, u.nadd[i][2]>>] ]

Emit(step, expect) ==
  PrintT("@@" \o ToJson([fam |-> "light", hist |-> hist, step |-> step, expect |-> expect]))

\* what the client holds in abstract state (x, lv, hd): its leaves in
\* ascending slot order, each with its position, and the canonical proof
Holding(x, lv, hd) == [held |-> AscSeq(hd), cp |-> JProof(CanonProof(x, lv, AscSeq(hd)))]

\* one block of a client: the step record (what the replay harness feeds to
\* the real code and what the client must hold afterwards)
BlockStepAt(x, lv, hd, ord, k, Rem) ==
  LET D    == {ord[i] : i \in 1..Len(ord)}
      x2   == x + k
      lv2  == (lv \ D) \cup (x..(x + k - 1))
      hd2  == (hd \ D) \cup {x + i : i \in Rem}
      hold == Holding(x2, lv2, hd2)
  IN  [ a |-> "block", d |-> ord, k |-> k, rem |-> AscSeq(Rem),
        pf   |-> JProof(CanonProof(x, lv, ord)),
        pre  |-> Roots(x, lv), post |-> Roots(x2, lv2),
        upd  |-> JUpd(UpdateDataRef(x, lv, D, k)),
        held |-> hold.held, cp |-> hold.cp ]

Wide == MinN < 99

\* the history that builds (x, lv, hd) in two blocks: append x leaves remembering hd
\* and everything that is going to be deleted, then delete the dead ones
InitHist(x, lv, hd) ==
  LET dead == (0..(x - 1)) \ lv IN
  (IF x = 0 THEN <<>> ELSE <<BlockStepAt(0, {}, {}, <<>>, x, hd)>>)
    \o (IF dead = {} THEN <<>> ELSE <<BlockStepAt(x, 0..(x - 1), hd, AscSeq(dead), 0, {})>>)

Init == /\ stack = <<>> /\ und = 0 /\ tord = <<>>
        /\ IF ~Wide
           THEN n = 0 /\ live = {} /\ held = {} /\ hist = <<>>
           ELSE /\ n \in MinN..(MaxN - 1)
                /\ live \in {(0..(n - 1)) \ S : S \in {T \in SUBSET (0..(n - 1)) : Cardinality(T) <= InitDead}}
                /\ held \in {T \in SUBSET live : Cardinality(T) <= InitHeld}
                /\ hist = InitHist(n, live, held)

\* the slots of the aligned subtrees of a forest of x leaves
Aligned(x) == UNION {{(i * (2^h))..(i * (2^h) + 2^h - 1) : i \in 0..(x \div (2^h))} : h \in 1..TreeRows(x)}
RemChoices(k) == IF ~Wide THEN SUBSET (0..(k-1)) ELSE {R \in SUBSET (0..(k-1)) : Cardinality(R) <= 1}
DelChoices ==
  IF ~Wide THEN SUBSET live
  ELSE {D \in SUBSET live : Cardinality(D) <= 1}
         \cup {A \cap live : A \in {B \in Aligned(n) : B \subseteq 0..(n - 1)}}

Push(rec) == IF MaxStack = 0 THEN <<>>
             ELSE SubSeq(<<rec>> \o stack, 1, IF Len(stack) + 1 > MaxStack THEN MaxStack ELSE Len(stack) + 1)

Block ==
  /\ "block" \in Acts
  /\ (IF Wide THEN stack = <<>> /\ und = 0 ELSE TRUE)   \* wide: one block from every initial state, then its undo
  /\ \E D \in DelChoices, k \in 0..MaxAdds :
       /\ n + k <= MaxN
       /\ \E Rem \in RemChoices(k) :
            LET n2  == n + k
                lv2 == (live \ D) \cup (n..(n + k - 1))
                hd2 == (held \ D) \cup {n + i : i \in Rem}
                ord == AscSeq(D)
                step == BlockStepAt(n, live, held, ord, k, Rem)
            IN  /\ n' = n2 /\ live' = lv2 /\ held' = hd2
                /\ stack' = Push([n |-> n, live |-> live])
                /\ und' = und /\ tord' = <<>>
                /\ hist' = Append(hist, step)
                /\ Emit(step, [n |-> n2, roots |-> Roots(n2, lv2)])

\* undoing the newest block: the client keeps exactly those of its leaves
\* that existed before the block (leaves the block deleted are not restored)
UndoBlock ==
  /\ "undoblock" \in Acts
  /\ stack # <<>>
  /\ und < MaxUnd
  /\ LET prev == Head(stack)
         D    == prev.live \ live
         k    == n - prev.n
         ord  == AscSeq(D)
         hdU  == held \cap (0..(prev.n - 1))
         hold == Holding(prev.n, prev.live, hdU)
         step == [ a |-> "undoblock", d |-> ord, k |-> k,
                   pf   |-> JProof(CanonProof(prev.n, prev.live, ord)),
                   pre  |-> Roots(prev.n, prev.live), post |-> Roots(prev.n, prev.live),
                   upd  |-> JUpd(UpdateDataRef(prev.n, prev.live, D, k)),
                   held |-> hold.held, cp |-> hold.cp ]
     IN  /\ n' = prev.n /\ live' = prev.live /\ held' = hdU
         /\ stack' = Tail(stack)
         /\ und' = und + 1 /\ tord' = <<>>
         /\ hist' = Append(hist, step)
         /\ Emit(step, [n |-> prev.n, roots |-> Roots(prev.n, prev.live)])

\* the client restricts its proof to some of its leaves, asked for in any order
\* (GetProofSubset); what it holds afterwards is the canonical proof of those
RestrictProof ==
  /\ "restrict" \in Acts
  /\ tord = <<>>
  /\ \E W \in SUBSET held \ {{}} :
       /\ Cardinality(W) <= 3
       /\ \E o \in SetToSeqs(W) :
            LET hold == Holding(n, live, W)
                step == [ a |-> "restrict", w |-> o, held |-> hold.held, cp |-> hold.cp,
                          post |-> Roots(n, live) ]
            IN  /\ held' = W /\ tord' = o
                /\ hist' = Append(hist, step)
                /\ UNCHANGED <<n, live, stack, und>>
                /\ Emit(step, [n |-> n, roots |-> Roots(n, live)])

Next == Block \/ UndoBlock \/ RestrictProof
Spec == Init /\ [][Next]_vars

TypeOK == n \in 0..MaxN /\ live \subseteq 0..(n-1) /\ held \subseteq live

(***************************************************************************)
(* Design-level theorem for C07 (sufficiency of the block data): every     *)
(* hash of the client's new canonical proof is one of its old proof        *)
(* hashes, one of its old leaf hashes, or is listed in the update data.    *)
(* A light client therefore never needs anything else.  Checked as an      *)
(* action property over every Block transition.                            *)
(***************************************************************************)
HashesOf(pr) == {pr.p[i] : i \in 1..Len(pr.p)}
Sufficient ==
  [][ (n' >= n /\ hist' # hist /\ Len(hist') > 0 /\ hist'[Len(hist')].a = "block") =>
        LET D    == live \ live'
            k    == n' - n
            u    == UpdateDataRef(n, live, D, k)
            old  == CanonProof(n, live, AscSeq(held))
            new  == CanonProof(n', live', AscSeq(held'))
            have == HashesOf(old) \cup {Leaf(s) : s \in held}
                      \cup {u.ndel[i][2] : i \in 1..Len(u.ndel)}
                      \cup {u.nadd[i][2] : i \in 1..Len(u.nadd)}
        IN  HashesOf(new) \subseteq have ]_vars

=============================================================================
