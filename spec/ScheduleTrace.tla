--------------------------- MODULE ScheduleTrace ---------------------------
(***************************************************************************)
(* Trace validation for C15.  Each recorded event                          *)
(*   {"ev":"sched","blocks":[{"d":[slots],"k":K},..],"maxmem":M,           *)
(*    "sched":[[slots]..]}                                                 *)
(* is the output of GenerateCachingSchedule(M) after the listed block      *)
(* summaries were recorded; it is a step of the specification only if      *)
(* SchedOK holds.  Satisfiable is evaluated on the same history so that    *)
(* the relation is known not to be vacuous for it.                         *)
(***************************************************************************)
EXTENDS Schedule, Json, TLC, TLCExt

VARIABLE l
TraceLog == ndJsonDeserialize("trace.ndjson")

BlocksOf(e) == [b \in 1..Len(e.blocks) |-> [d |-> ToSetOf(e.blocks[b].d), k |-> e.blocks[b].k]]

EventOK(e) ==
  /\ e.ev = "sched"
  /\ SchedOK(BlocksOf(e), e.maxmem, e.sched)
  /\ Satisfiable(BlocksOf(e), e.maxmem)

TraceInit == l = 1 /\ TLCSet(1, 1)
TraceNext == /\ l <= Len(TraceLog) /\ EventOK(TraceLog[l]) /\ l' = l + 1
TraceSpec == TraceInit /\ [][TraceNext]_l
TraceProgress == TLCSet(1, IF l > TLCGet(1) THEN l ELSE TLCGet(1))
TraceAccepted ==
  IF TLCGet(1) = Len(TraceLog) + 1 THEN TRUE
  ELSE /\ PrintT("TRACE-REJECTED-AT " \o ToString(TLCGet(1)))
       /\ PrintT(TraceLog[TLCGet(1)])
       /\ FALSE
=============================================================================
