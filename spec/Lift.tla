-------------------------------- MODULE Lift --------------------------------
(***************************************************************************)
(* Lifting lemma of the reference semantics (geometric content).           *)
(*                                                                         *)
(* Put a forest of x < 2^S leaves (live set lv) on top of M*2^S leaves that *)
(* are all alive.  Then, below the trees of M, the big forest is the small *)
(* one shifted: every node of the small forest at (row, idx) sits at       *)
(* (row, idx + M*2^(S-row)); the heights of the trees are those of M       *)
(* (raised by S) and those of x; the roots of the low trees are the        *)
(* shifted roots; the proof positions of shifted targets are the shifted   *)
(* proof positions; the same all-dead trees are overwritten by the same    *)
(* additions.  Hashes are not compared here: Val is translation invariant  *)
(* by construction, the terms only differ in the slot numbers of the       *)
(* leaves.  The replay harness (family "lift") relies on this lemma to     *)
(* replay small behaviours at 2^31 .. 2^62 leaves; TLC checks it for every *)
(* M <= MaxM, every x < 2^S and every live set.                            *)
(***************************************************************************)
EXTENDS Forest

CONSTANTS S, MaxM
VARIABLES m, x, lv
vars == <<m, x, lv>>

Init == /\ m \in 1..MaxM
        /\ x \in 0..(2^S - 1)
        /\ lv \in SUBSET (0..(x - 1))
Next == UNCHANGED vars
Spec == Init /\ [][Next]_vars

Base == m * (2^S)
N    == Base + x
Low  == {Base + t : t \in lv}
LV   == (0..(Base - 1)) \cup Low
Sh(p) == Pos(p.row, p.idx + m * (2^(S - p.row)))

LiftOK ==
  LET small == Nodes(x, lv)
      big   == Nodes(N, LV)
      lowNd == {nd \in big : nd.idx * (2^nd.row) >= Base}
      leafPos == {PosOfIn(small, t) : t \in lv}
  IN  /\ Heights(N) = {h + S : h \in Heights(m)} \cup Heights(x)
      /\ \A h \in Heights(x) : RootPos(N, h) = Sh(RootPos(x, h))
      /\ {NodePos(nd) : nd \in lowNd} = {Sh(NodePos(nd)) : nd \in small}
      /\ \A t \in lv : PosOfIn(big, Base + t) = Sh(PosOfIn(small, t))
      /\ \A nd \in small : \E b \in lowNd :
            /\ NodePos(b) = Sh(NodePos(nd))
            /\ (nd.slot = -1) = (b.slot = -1)
            /\ (nd.slot # -1 => b.slot = Base + nd.slot)
      /\ \A T \in SUBSET leafPos :
            ProofPosSet(N, {Sh(p) : p \in T}) = {Sh(p) : p \in ProofPosSet(x, T)}
      /\ Len(Roots(N, LV)) = PopCount(m) + PopCount(x)
      /\ \A i \in 1..PopCount(x) :
            (Roots(N, LV)[PopCount(m) + i] = Empty) = (Roots(x, lv)[i] = Empty)
      /\ \A D \in SUBSET lv, k \in 0..(2^S - 1 - x) :
            DestroyedHeights(N, LV \ {Base + t : t \in D}, k) = DestroyedHeights(x, lv \ D, k)
=============================================================================
