--------------------------- MODULE AdversaryTrace ---------------------------
(***************************************************************************)
(* Trace validation for C03: every acceptance recorded from the real       *)
(* verifiers must be a step of the specification, i.e. Accepted must be    *)
(* enabled (every claimed hash is the hash of the node at its claimed      *)
(* position in the forest of that state).                                  *)
(*                                                                         *)
(* Trace line: {"ev":"accept","api":..,"n":N,"live":[slots],"hs":[terms],  *)
(*              "tg":[[row,idx]..]}   (a target that is no position of the *)
(*              geometry is logged as [-1, 0])                             *)
(***************************************************************************)
EXTENDS Forest, Json, TLCExt

VARIABLE l
TraceLog == ndJsonDeserialize("trace.ndjson")

TraceInit == l = 1 /\ TLCSet(1, 1)

ToSetOf(s) == {s[i] : i \in 1..Len(s)}

EventOK(e) ==
  LET lv == ToSetOf(e.live)
      tg == [i \in 1..Len(e.tg) |-> Pos(e.tg[i][1], e.tg[i][2])]
  IN  /\ e.ev = "accept"
      /\ \A i \in 1..Len(tg) : tg[i].row >= 0
      /\ ClaimsTrue(e.n, lv, e.hs, tg)

TraceNext ==
  /\ l <= Len(TraceLog)
  /\ EventOK(TraceLog[l])
  /\ l' = l + 1

TraceSpec == TraceInit /\ [][TraceNext]_l

\* high-water mark of the cursor
TraceProgress == TLCSet(1, IF l > TLCGet(1) THEN l ELSE TLCGet(1))

TraceAccepted ==
  IF TLCGet(1) = Len(TraceLog) + 1 THEN TRUE
  ELSE /\ PrintT("TRACE-REJECTED-AT " \o ToString(TLCGet(1)))
       /\ PrintT(TraceLog[TLCGet(1)])
       /\ FALSE
=============================================================================
