------------------------------ MODULE Adversary ------------------------------
(***************************************************************************)
(* Untrusted input to the verifiers (properties C03 and C04).              *)
(*                                                                         *)
(* Every abstract state (n, live) within the bound is an initial state.    *)
(* For each state the module defines the input domain an adversarial peer  *)
(* draws from - the hash alphabet (every node hash of the forest, hence    *)
(* every leaf and every non-zero root, plus fresh values; the zero hash is *)
(* added for proof hashes only), every position of the geometry plus       *)
(* numbers beyond it, bounded claim and proof lengths - and the verdict a  *)
(* sound verifier may give:                                                *)
(*                                                                         *)
(*     VerifyCall(hs, tg, pf) \in {"accept", "reject"}   (total)           *)
(*     VerifyCall(hs, tg, pf) = "accept"  =>  ClaimsTrue(hs, tg)           *)
(*                                                                         *)
(* The state line emitted here hands the domain and the node table to the  *)
(* harness, which forms the product natively against the real verifiers    *)
(* (a real call costs about 1 us, a TLC evaluation about 0.1 ms).  Every   *)
(* acceptance by the code is recorded and validated against Accepted below *)
(* by the trace specification AdversaryTrace.                              *)
(***************************************************************************)
EXTENDS Forest, Json

CONSTANTS MaxN, MaxClaim, MaxProof, NJunk

VARIABLES n, live
vars == <<n, live>>

JPos(p)    == <<p.row, p.idx>>
JPosSeq(s) == [i \in 1..Len(s) |-> JPos(s[i])]
JProof(pr) == [t |-> JPosSeq(pr.t), p |-> pr.p]
AscSeq(S)  == SetToSortSeq(S, <)
NodeLess(a, b) == PosLess(NodePos(a), NodePos(b))

\* every position of a forest allocated for TreeRows(x) rows
AllPositions(x) == LET R == TreeRows(x)
                   IN  UNION {{Pos(r, i) : i \in 0..(2^(R - r) - 1)} : r \in 0..R}

\* hashes an adversary may claim: true node hashes and fresh values
ClaimAlphabet(x, lv) == {nd.hash : nd \in Nodes(x, lv)} \cup {Junk(j) : j \in 1..NJunk}
\* hashes an adversary may put into the proof: the same plus the zero hash
ProofAlphabet(x, lv) == ClaimAlphabet(x, lv) \cup {Empty}

Init == n \in 0..MaxN /\ live \in SUBSET (0..(n-1))

(***************************************************************************)
(* The soundness condition, as an action of the trace specification: an    *)
(* acceptance is a step of the specification only if every claim is true.  *)
(***************************************************************************)
Accepted(x, lv, hs, tg) == ClaimsTrue(x, lv, hs, tg)

StateLine ==
  LET nds  == Nodes(n, live)
      sq   == SetToSortSeq(nds, NodeLess)
      dead == AscSeq((0..(n-1)) \ live)
      all  == 0..(n-1)
      ca   == SetToSortSeq(ClaimAlphabet(n, live), LAMBDA a, b : TRUE)
      step == [ a |-> "state", n |-> n, roots |-> Roots(n, live), live |-> AscSeq(live),
                \* how to build the state: add n leaves, delete the dead ones
                d |-> dead, k |-> n, pf |-> JProof(CanonProof(n, all, dead)),
                post |-> Roots(n, all),
                alphabet |-> SetToSeq(ClaimAlphabet(n, live)),
                positions |-> JPosSeq(SortPos(AllPositions(n))),
                maxclaim |-> MaxClaim, maxproof |-> MaxProof ]
  IN  /\ UNCHANGED vars
      /\ PrintT("@@" \o ToJson([fam |-> "adv", hist |-> <<>>, step |-> step,
                                expect |-> [ n |-> n, roots |-> Roots(n, live),
                                             leaves |-> [i \in 1..Len(AscSeq(live)) |->
                                                          LET s == AscSeq(live)[i] p == PosOfIn(nds, s)
                                                          IN <<s, p.row, p.idx>>],
                                             nodes |-> [i \in 1..Len(sq) |-> <<sq[i].row, sq[i].idx, sq[i].hash>>] ]]))

Next == StateLine
Spec == Init /\ [][Next]_vars

(***************************************************************************)
(* Sanity of the domain (vacuity guard): in every state with a live leaf   *)
(* there are true and false claims over the alphabet.                      *)
(***************************************************************************)
DomainOK ==
  live # {} =>
    /\ \E h \in ClaimAlphabet(n, live), p \in AllPositions(n) : ClaimsTrue(n, live, <<h>>, <<p>>)
    /\ \E h \in ClaimAlphabet(n, live), p \in AllPositions(n) : ~ClaimsTrue(n, live, <<h>>, <<p>>)

=============================================================================
