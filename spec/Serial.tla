------------------------------- MODULE Serial -------------------------------
(***************************************************************************)
(* Serialization (property C13), at two levels.                            *)
(*                                                                         *)
(* 1. The decoder against the io.Reader contract.  A stream is a sequence  *)
(*    of fixed-length fields (the framing below); it is cut at `avail'     *)
(*    bytes (avail = Total: complete stream).  A conforming reader, asked  *)
(*    for k bytes, returns any 1..k of the bytes that are left, possibly   *)
(*    together with EOF when they are the last ones, or (0, EOF) when      *)
(*    nothing is left.  Two decoders are modelled:                         *)
(*      "full"   - completes every field (io.ReadFull discipline),         *)
(*      "single" - issues a single Read per field and uses whatever came   *)
(*                 back (the code as found).                               *)
(*    Theorems for "full", over every chunking and every truncation point: *)
(*      Sound     accept  =>  the stream was complete, all of it consumed  *)
(*      Complete  a complete stream is never rejected                      *)
(*      Total     the decoder always terminates (liveness)                 *)
(*    "single" violates Sound and Complete (negative demonstration).       *)
(*    Field lengths are scaled down (1, 8, 32, 33 bytes -> 1, 2, 3, 3):    *)
(*    only the structure matters for the theorems.                         *)
(*                                                                         *)
(* 2. The API-level relation used to judge and trace-validate the real     *)
(*    code: RestoreOutcome and WriteOutcome at the end of the module.      *)
(***************************************************************************)
EXTENDS Integers, Sequences, FiniteSets, TLC

CONSTANTS Frames,        \* set of framings (sequences of field lengths)
          Decoder,       \* "full" | "single"
          AllowDataEOF   \* reader may return the last bytes together with EOF

VARIABLES frame, avail, pos, field, got, status, stut
vars == <<frame, avail, pos, field, got, status, stut>>

RECURSIVE SumSeq(_)
SumSeq(s) == IF s = <<>> THEN 0 ELSE Head(s) + SumSeq(Tail(s))
Total == SumSeq(frame)
Min(a, b) == IF a < b THEN a ELSE b

\* framing of the pointer forest: NumLeaves, NumDels, then per node
\* (hash, leaf flag, niece flag); of the map forest: TotalRows, NumLeaves,
\* count, (hash, position) per cached leaf, count, (position, hash+flag) per node
PollardFrame(nodes) == <<2, 2>> \o [i \in 1..(3 * nodes) |-> IF i % 3 = 1 THEN 3 ELSE 1]
MapFrame(c, m)      == <<1, 2, 2>> \o [i \in 1..(2 * c) |-> IF i % 2 = 1 THEN 3 ELSE 2]
                         \o <<2>> \o [i \in 1..(2 * m) |-> IF i % 2 = 1 THEN 2 ELSE 3]

\* the framings explored (a configuration substitutes one of these for Frames)
FramesSmall == {<<>>, PollardFrame(0), PollardFrame(1), PollardFrame(2), MapFrame(0, 1), MapFrame(1, 2)}
FramesBig   == FramesSmall \cup {PollardFrame(3), PollardFrame(4), MapFrame(2, 3), MapFrame(1, 4), MapFrame(3, 3)}

Init == /\ frame \in Frames
        /\ avail \in 0..SumSeq(frame)
        /\ pos = 0 /\ field = 1 /\ got = 0 /\ status = "run" /\ stut = 0

Want == IF Decoder = "full" THEN frame[field] - got ELSE frame[field]

\* the decoder's reaction to a Read that returned (j, eof)
OnRead(j, eof) ==
  IF Decoder = "full"
  THEN \* io.ReadFull: keeps reading until the field is complete; EOF before
       \* that is an error; EOF together with the last byte of the field is not
       IF got + j = frame[field]
       THEN /\ got' = 0 /\ field' = field + 1 /\ pos' = pos + j
            /\ status' = IF field = Len(frame) THEN "ok" ELSE "run"
       ELSE IF eof THEN /\ status' = "err" /\ pos' = pos + j /\ UNCHANGED <<got, field>>
       ELSE /\ got' = got + j /\ pos' = pos + j /\ UNCHANGED <<field, status>>
  ELSE \* single Read: any error (also EOF with data) rejects; otherwise the
       \* field counts as read whatever the number of bytes
       IF eof THEN /\ status' = "err" /\ pos' = pos + j /\ UNCHANGED <<got, field>>
       ELSE /\ got' = 0 /\ field' = field + 1 /\ pos' = pos + j
            /\ status' = IF field = Len(frame) THEN "ok" ELSE "run"

ReadStep ==
  /\ status = "run"
  /\ field <= Len(frame)
  /\ IF pos = avail
     THEN OnRead(0, TRUE)
     ELSE \E j \in 1..Min(Want, avail - pos) :
            \E eof \in (IF AllowDataEOF /\ pos + j = avail THEN {FALSE, TRUE} ELSE {FALSE}) :
               OnRead(j, eof)
  /\ stut' = 0
  /\ UNCHANGED <<frame, avail>>

\* a conforming reader may also return (0, nil): nothing happened (at most once in a row here)
Stutter ==
  /\ status = "run" /\ field <= Len(frame) /\ stut = 0
  /\ stut' = 1
  /\ IF Decoder = "full"
     THEN UNCHANGED <<pos, field, got, status>>
     ELSE \* the single-Read decoder takes the field for read
          /\ got' = 0 /\ field' = field + 1 /\ pos' = pos
          /\ status' = IF field = Len(frame) THEN "ok" ELSE "run"
  /\ UNCHANGED <<frame, avail>>

\* an empty framing is accepted without reading
Finish == /\ status = "run" /\ field > Len(frame) /\ status' = "ok"
          /\ UNCHANGED <<frame, avail, pos, field, got, stut>>

Next == ReadStep \/ Stutter \/ Finish
Spec == Init /\ [][Next]_vars /\ WF_vars(ReadStep \/ Finish)

TypeOK == /\ pos \in 0..avail /\ field \in 1..(Len(frame) + 1) /\ status \in {"run", "ok", "err"}

Sound    == status = "ok" => avail = Total /\ pos = Total
Complete == avail = Total => status # "err"
Total_   == <>(status # "run")

(***************************************************************************)
(* API-level relation (what the property demands of the real code).        *)
(*   restore of the first t bytes of a stream of L bytes:                  *)
(*     t = L  ->  success, identical state, count = L                      *)
(*     t < L  ->  error, or success with an identical state; never a panic *)
(*   write to a sink that accepts f bytes:                                 *)
(*     f < L  ->  error;   f >= L -> success, count = L;  never a panic    *)
(***************************************************************************)
RestoreOutcome(L, t, res, same, count) ==
  /\ res \in {"ok", "err"}
  /\ (t = L => res = "ok" /\ same /\ count = L)
  /\ (t < L => res = "err" \/ (res = "ok" /\ same))

WriteOutcome(L, f, res, count) ==
  /\ res \in {"ok", "err"}
  /\ (f < L => res = "err")
  /\ (f >= L => res = "ok" /\ count = L)

=============================================================================
