---------------------------- MODULE ScheduleAlg ----------------------------
(***************************************************************************)
(* The clairvoyant caching schedule as an algorithm (design-level check of *)
(* the relation Schedule!SchedOK that every recorded output of the code is *)
(* validated against; property C15).                                       *)
(*                                                                         *)
(* prove.go works in two phases.  genTTLs walks the recorded blocks        *)
(* backwards and hands every spent leaf back to the block that created it, *)
(* as a pair (creation position, time to live = deleting block - creating  *)
(* block).  GenerateCachingSchedule then walks the blocks forwards with a  *)
(* bounded cache of such pairs:                                            *)
(*    - at the start of a block every cached pair ages by one; a pair      *)
(*      whose time is up is moved into the schedule of the block that      *)
(*      created it (kept sorted) and leaves the cache;                     *)
(*    - every pair of the block is offered to the cache: taken while there *)
(*      is room, otherwise it replaces the first cached pair with a        *)
(*      strictly greater time to live, otherwise it is dropped.            *)
(* Only pairs that stay cached for their whole life are ever scheduled.    *)
(*                                                                         *)
(* The first phase is geometry and is bound to the code by the replay of   *)
(* C15 (the schedule must name real insertion slots); here its result is   *)
(* taken abstractly - the pairs of block b are the slots created in b and  *)
(* spent in a later recorded block - and the ORDER in which a block's      *)
(* pairs are offered is left open (TLC explores every order), so whatever  *)
(* order the backward walk produces is covered.                            *)
(*                                                                         *)
(* TLC checks over every block history in bounds, every memory limit and   *)
(* every offering order:                                                   *)
(*    CacheBound   the cache never holds more than the limit               *)
(*    CacheTrue    a cached pair's remaining time is exactly the distance  *)
(*                 to the block that spends it, and is positive            *)
(*    SoFarOK      whatever has been scheduled so far names a slot of the  *)
(*                 block it is filed under, spent at the current block or  *)
(*                 earlier, once, ascending                                *)
(*    FinalOK      the finished schedule satisfies Schedule!SchedOK        *)
(*    Useful       with a limit of at least one and at least one spent     *)
(*                 leaf the schedule is not empty (the relation admits the *)
(*                 empty schedule when the limit binds; the algorithm must *)
(*                 not be that lazy)                                       *)
(* Not a theorem (TLC refutes it with a history of five blocks, limit 2):  *)
(* NotExtensible - "adding any further spent leaf to the finished schedule *)
(* would exceed the limit at some block".  A pair dropped because the      *)
(* cache was full is not offered again when the pairs that kept it out are *)
(* themselves replaced later.  The property C15 does not ask for it.       *)
(* Variants re-introduce slips TLC must refute: "le" (room test <= instead *)
(* of <), "noage" (a replaced pair's creation block is kept for the new    *)
(* pair), "ge" (replaces a pair with an equal time to live - harmless for  *)
(* SchedOK, must still pass).                                              *)
(* A failure here means the relation or this algorithm is wrong - never    *)
(* the code.                                                               *)
(***************************************************************************)
EXTENDS Schedule, TLC

CONSTANTS MaxN, MaxAdds, MaxBlocks, SVariant

VARIABLES blocks, live, phase, m, i, pend, cache, sched
avars == <<blocks, live, phase, m, i, pend, cache, sched>>

\* the pairs genTTLs files under block b
Pairs(b) == {[x |-> x, ttl |-> DeletedAt(blocks, x) - b, at |-> b] :
               x \in {y \in SlotsOf(blocks, b) : DeletedAt(blocks, y) # 0}}

AInit ==
  /\ blocks = <<>> /\ live = {} /\ phase = "build"
  /\ m = 0 /\ i = 0 /\ pend = {} /\ cache = <<>> /\ sched = <<>>

\* ---- the recorded history ------------------------------------------------
Record ==
  /\ phase = "build" /\ Len(blocks) < MaxBlocks
  /\ \E D \in SUBSET live, k \in 0..MaxAdds :
       LET n == TotalLeaves(blocks) IN
       /\ n + k <= MaxN
       /\ D # {} \/ k > 0
       /\ blocks' = Append(blocks, [d |-> D, k |-> k])
       /\ live' = (live \ D) \cup (n..(n + k - 1))
  /\ UNCHANGED <<phase, m, i, pend, cache, sched>>

\* ---- ageing: what happens at the start of block j -------------------------
RECURSIVE InsertSorted(_, _)
InsertSorted(s, x) ==
  IF s = <<>> THEN <<x>>
  ELSE IF x < Head(s) THEN <<x>> \o s ELSE <<Head(s)>> \o InsertSorted(Tail(s), x)

RECURSIVE Age(_, _, _)
\* c: cache still to look at, kept: pairs that stay, sc: schedule so far
Age(c, kept, sc) ==
  IF c = <<>> THEN [cache |-> kept, sched |-> sc]
  ELSE LET e == [Head(c) EXCEPT !.ttl = @ - 1] IN
       IF e.ttl = 0
       THEN Age(Tail(c), kept, [sc EXCEPT ![e.at] = InsertSorted(@, e.x)])
       ELSE Age(Tail(c), Append(kept, e), sc)

Start ==
  /\ phase = "build" /\ Len(blocks) > 0
  /\ \E mm \in 0..(TotalLeaves(blocks) + 1) : m' = mm
  /\ phase' = "run" /\ i' = 1
  /\ cache' = <<>>
  /\ sched' = [b \in 1..Len(blocks) |-> <<>>]
  /\ pend' = Pairs(1)
  /\ UNCHANGED <<blocks, live>>

\* ---- offering one pair of the current block -------------------------------
Room == IF SVariant = "le" THEN Len(cache) <= m ELSE Len(cache) < m
Beats(c, t) == IF SVariant = "ge" THEN c.ttl >= t.ttl ELSE c.ttl > t.ttl
RemoveAt(s, k) == SubSeq(s, 1, k - 1) \o SubSeq(s, k + 1, Len(s))

Offer ==
  /\ phase = "run" /\ pend # {}
  /\ \E t \in pend :
       /\ pend' = pend \ {t}
       /\ IF Room THEN cache' = Append(cache, t)
          ELSE IF \E k \in 1..Len(cache) : Beats(cache[k], t)
               THEN LET k == CHOOSE kk \in 1..Len(cache) :
                               Beats(cache[kk], t) /\ \A j \in 1..(kk - 1) : ~Beats(cache[j], t)
                        nt == IF SVariant = "noage" THEN [t EXCEPT !.at = cache[k].at] ELSE t
                    IN  cache' = Append(RemoveAt(cache, k), nt)
               ELSE cache' = cache
  /\ UNCHANGED <<blocks, live, phase, m, i, sched>>

Advance ==
  /\ phase = "run" /\ pend = {}
  /\ IF i = Len(blocks)
     THEN phase' = "done" /\ UNCHANGED <<i, pend, cache, sched>>
     ELSE LET a == Age(cache, <<>>, sched) IN
          /\ i' = i + 1 /\ cache' = a.cache /\ sched' = a.sched
          /\ pend' = Pairs(i + 1)
          /\ UNCHANGED phase
  /\ UNCHANGED <<blocks, live, m>>

ANext == Record \/ Start \/ Offer \/ Advance
ASpec == AInit /\ [][ANext]_avars

\* ---- theorems ------------------------------------------------------------
CacheBound == phase = "run" => Len(cache) <= m

CacheTrue ==
  phase = "run" =>
    \A k \in 1..Len(cache) :
      /\ cache[k].ttl > 0
      /\ cache[k].ttl = DeletedAt(blocks, cache[k].x) - i
      /\ cache[k].at = CreatedAt(blocks, cache[k].x)
      /\ \A j \in 1..Len(cache) : j # k => cache[j].x # cache[k].x

SoFarOK ==
  phase \in {"run", "done"} =>
    \A b \in 1..Len(sched) :
      /\ \A j \in 1..Len(sched[b]) :
            LET x == sched[b][j] IN
            /\ CreatedAt(blocks, x) = b
            /\ DeletedAt(blocks, x) > b /\ DeletedAt(blocks, x) <= i
      /\ \A j \in 1..(Len(sched[b]) - 1) : sched[b][j] < sched[b][j + 1]

FinalOK == phase = "done" => SchedOK(blocks, m, sched)

Useful ==
  (phase = "done" /\ m >= 1 /\ Spent(blocks) # {}) => Scheduled(sched) # {}

\* refuted conjecture, kept for the record (see the header); not checked by any stage
NotExtensible ==
  phase = "done" =>
    \A x \in Spent(blocks) \ Scheduled(sched) :
      \E j \in CreatedAt(blocks, x)..(DeletedAt(blocks, x) - 1) :
        Cardinality(HeldAfter(blocks, sched, j)) >= m

\* history variables that add nothing to the behaviour are hidden from the fingerprint
AView == <<blocks, phase, m, i, pend, cache, sched>>
=============================================================================
