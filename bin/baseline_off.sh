#!/bin/sh
# Runs the repository's pinned test suite with the verif build tag OFF and
# checks that every test of the stable baseline passes.
export GOFLAGS=-mod=mod GOPROXY=off GOSUMDB=off GOTOOLCHAIN=local
cd /repo || exit 2
out=$(mktemp)
go test -mod=mod -json -vet=off -count=1 -timeout 25m ./... > "$out" 2>&1
python3 - "$out" <<'PY'
import json,sys
base=json.load(open('/root/.vp/BASELINE.json'))['stable_pass']
res={}
for line in open(sys.argv[1]):
    try: e=json.loads(line)
    except Exception: continue
    if e.get('Test') and e.get('Action') in ('pass','fail','skip'):
        res[e['Package']+'::'+e['Test']]=e['Action']
bad=[t for t in base if res.get(t)!='pass']
print('baseline tests: %d, passing: %d'%(len(base),len(base)-len(bad)))
for t in bad[:20]: print('NOT PASSING:',t,res.get(t))
sys.exit(1 if bad else 0)
PY
rc=$?
rm -f "$out"
exit $rc
