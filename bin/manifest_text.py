"""Level texts of the manifest (what each check assures, and what it trusts)."""

HOOK_COMMITS = ['019f6de', 'c8a37a2']

NOT_APPLICABLE = {}

COMMON_NOTE = ('Trusted: TLC and the TLA+ semantics; the reference semantics spec/Forest.tla; the harness\'s term<->hash '
               'dictionary (SHA-256 / SHA-512/256 from the Go standard library), its closed-form [row,idx]<->uint64 '
               'conversion, JSON plumbing and comparison code. Nothing from /repo computes an expectation. Exhaustive only '
               'within the bounds recorded in the evidence; hash collisions excluded by the free term algebra.')

TEXT = {
    'C01': {
        'text': 'Bounded exhaustive model checking: TLC enumerates every block history of spec/Core.tla within the bounds '
                '(all deletion subsets incl. whole trees and all leaves, additions crossing powers of two and overwriting '
                'empty roots); the roots and leaf count after every step of every enumerated behaviour are computed by the '
                'history-independent reference semantics (spec/Forest.tla) and compared with Stump, Pollard and full/partial '
                'MapPollard for every TotalRows of the tier. The quantifier over histories and configurations is enumerated '
                'by the model checker, the oracle shares no code with /repo. TLC also checks two independent algorithmic models against the reference semantics: an incremental root list (spec/StumpAlg.tla) and the swapless move-up position map (spec/MapForestAlg.tla); the behaviours of the partial-forest machine (spec/Partial.tla) are judged for roots and leaf count too. In addition long random histories (up to 64 leaves, 40 blocks, undo/redo) are recorded from the real code by a driver that knows no expected value and are validated by TLC against the stateful trace specification spec/CoreTrace.tla (R->T).',
        'design_ref': 'DESIGN.md section 5 (C01)',
        'note': COMMON_NOTE,
        'technique': 'TLA+ spec + TLC BFS generation, behaviours replayed on the code (G->R); spec-level refinement checks (StumpAlg, MapForestAlg); driver traces validated by TLC (R->T)',
    },
    'C02': {
        'text': 'Bounded exhaustive model checking: in every reachable state of spec/Core.tla, for every non-empty subset of '
                'live leaves and the request orders of the tier, TLC emits the canonical proof (targets in request order, '
                'proof hashes by row then position) and the set of trees; Pollard.Prove and MapPollard.Prove (full, and '
                'partial on cached sets) must return exactly that, and Verify / Pollard.Verify / MapPollard.Verify of every '
                'instance must accept it with exactly those root indexes. Histories with a recorded query before an undo and with every (undone block, next block) pair are generated as well; TLC checks completeness and minimality of canonical proofs on the verifier model (spec/VerifierFun.tla). In addition long random histories (up to 64 leaves, 40 blocks, undo/redo) are recorded from the real code by a driver that knows no expected value and are validated by TLC against the stateful trace specification spec/CoreTrace.tla (R->T).',
        'design_ref': 'DESIGN.md section 5 (C02)',
        'note': COMMON_NOTE,
        'technique': 'TLA+ spec + TLC BFS generation of Prove(S, order) in every state, replayed on the code (G->R); verifier model theorems; driver proofs validated by TLC (R->T)',
    },
    'C06': {
        'text': 'Bounded exhaustive model checking with the undo stack in the specification state: every block of every '
                'reachable state is applied and undone, to depth 1..3, and every continuation (redo on any branch) is '
                'explored; after each undo the complete observation vector of Pollard and full/partial MapPollard (all '
                'TotalRows of the tier) is compared with the expectation of the earlier abstract state. Every (undone block, next block) pair is continued (TrackUndone), and a wide configuration starts from every sparse state with up to 16 leaves (thorough). In addition long random histories (up to 64 leaves, 40 blocks, undo/redo) are recorded from the real code by a driver that knows no expected value and are validated by TLC against the stateful trace specification spec/CoreTrace.tla (R->T).',
        'design_ref': 'DESIGN.md section 5 (C06)',
        'note': COMMON_NOTE,
        'technique': 'TLA+ spec with undo stack + TLC BFS, undo/redo behaviours replayed on the code (G->R); driver traces with undo validated by TLC (R->T)',
    },
    'C10': {
        'text': 'Bounded exhaustive model checking: in the final state of every enumerated behaviour (blocks, undo, '
                'serialization round trip) every leaf hash ever added, every internal node hash, fresh hashes and every '
                'position up to 2^(rows+1)+4 are looked up on Pollard and full/partial MapPollard and compared with '
                'Nodes/PosOf of the reference semantics; tracked-leaf counters must equal |live|. TLC checks the position-map algorithm (spec/MapForestAlg.tla) against the reference placement. In addition long random histories (up to 64 leaves, 40 blocks, undo/redo) are recorded from the real code by a driver that knows no expected value and are validated by TLC against the stateful trace specification spec/CoreTrace.tla (R->T).',
        'design_ref': 'DESIGN.md section 5 (C10)',
        'note': COMMON_NOTE + ' Known finding C10-F1 (MapPollard.GetHash aliasing outside the forest) is reported as KNOWN-FINDING, not as a violation.',
        'technique': 'TLA+ spec + TLC BFS generation, complete look-up tables compared on the code (G->R); MapForestAlg refinement; driver positions validated by TLC (R->T)',
    },
    'C11': {
        'text': 'Bounded exhaustive model checking: every block transition of spec/Core.tla carries the reference update data '
                '(UpdateDataRef in spec/Forest.tla, defined from the pre- and post-block forests, not from the algorithm); '
                'the UpdateData returned by Stump.Update is compared field by field as exact sequences. TLC checks the incremental algorithm (spec/StumpAlg.tla) against UpdateDataRef. In addition long random histories (up to 64 leaves, 40 blocks, undo/redo) are recorded from the real code by a driver that knows no expected value and are validated by TLC against the stateful trace specification spec/CoreTrace.tla (R->T).',
        'design_ref': 'DESIGN.md section 5 (C11)',
        'note': COMMON_NOTE,
        'technique': 'TLA+ spec + TLC BFS generation, Stump.Update result compared with UpdateDataRef (G->R); StumpAlg refinement; driver update data validated by TLC (R->T)',
    },
    'C17': {
        'text': 'Frame condition checked on every library call of every replayed behaviour: arguments are passed in buffers '
                'with sentinel-filled spare capacity and compared after the call; results returned earlier are retained and '
                're-compared after every later call. The behaviours are the exhaustively enumerated ones of spec/Core.tla '
                '(blocks, undo, prove, round trip) and of the other families.',
        'design_ref': 'DESIGN.md section 5 (C17)',
        'note': COMMON_NOTE,
        'technique': 'call monitor inside the G->R replay of TLC-generated behaviours',
    },
    'C07': {
        'text': 'Bounded exhaustive model checking of the light-client state machine (spec/LightClient.tla): every block with '
                'every remember subset from every reachable (n, live, held); the real Stump.Update -> Proof.Update pipeline '
                'must leave the client holding exactly held\' with true positions and the canonical proof, which must verify '
                'and equal a full prover\'s proof. TLC additionally proves on the specification that block data is '
                'sufficient (theorem Sufficient). A light client also follows every history of the random driver (Proof.Update with random remember choices) and TLC checks on the recorded trace that it holds exactly what it must with the canonical proof (spec/CoreTrace.tla, R->T).',
        'design_ref': 'DESIGN.md section 5 (C07)',
        'note': COMMON_NOTE,
        'technique': 'TLA+ spec + TLC BFS over (n, live, held), Stump.Update/Proof.Update pipeline replayed (G->R); spec-level sufficiency theorem; driver light client validated by TLC (R->T)',
    },
    'C08': {
        'text': 'Bounded exhaustive model checking with the undo stack in the specification state: every block is undone with '
                'Proof.Undo to depth 1..3 and every redo continuation explored; after each undo the held pairs and the proof '
                'must be the canonical ones of held \\ added in the pre-block forest and verify against the previous stump. The same undo is also run with 65536 more additions in the undone block (the expectation does not depend on the number of additions), and the random driver\'s light client undoes blocks and is validated by TLC (spec/CoreTrace.tla, R->T).',
        'design_ref': 'DESIGN.md section 5 (C08)',
        'note': COMMON_NOTE,
        'technique': 'TLA+ spec with undo stack + TLC BFS, Proof.Undo behaviours replayed (G->R); driver light client validated by TLC (R->T)',
    },
    'C14': {
        'text': 'Bounded exhaustive model checking of the stateless proof operations (spec/ProofOps.tla): for every abstract '
                'state within the bound and all argument combinations, the results of AddProof, GetProofSubset (incl. its '
                'error case), GetMissingPositions and MapPollard.GetMissingPositions + VerifyPartialProof are compared with '
                'canonical proofs / position sets derived from the reference semantics; TLC proves UnionSufficient and '
                'MissingExact on the specification. Partial forests are asked for their missing positions in every reachable (n, live, cached) (spec/Partial.tla MissQ: exact given the dumped stored set), and wide stages cover every state with 8..10 leaves for small request sets.',
        'design_ref': 'DESIGN.md section 5 (C14)',
        'note': COMMON_NOTE,
        'technique': 'TLA+ spec + TLC enumeration of all (state, arguments), results compared on the code (G->R); spec-level theorems',
    },
    'C09': {
        'text': 'Bounded exhaustive model checking of the partial-forest state machine (spec/Partial.tla): all interleavings '
                'of Modify, Verify(remember), Ingest, Prune, Undo and from-roots restarts within the bounds; after each '
                'behaviour the real instance\'s leaf index and stored node map are dumped and judged against the '
                'specification\'s relation (exact leaf index, true hashes, lower/upper bound on the stored set, canonical '
                'proofs). TLC proves on the specification that the lower bound suffices to prove every cached subset. Every state has one witness history per kind of last action (TrackLast). Four partial forests follow every history of the random driver (two prune, ingest and verify between blocks) and their dumps are validated by TLC against the same relation (spec/CoreTrace.tla StoredOK, R->T).',
        'design_ref': 'DESIGN.md section 5 (C09)',
        'note': COMMON_NOTE,
        'technique': 'TLA+ spec + TLC BFS over interleavings, Nodes/CachedLeaves dumps judged against the spec relation (G->R) and validated by TLC on driver traces (R->T)',
    },
    'C03': {
        'text': 'Bounded exhaustive soundness check: for every abstract state within the bound the complete product of the '
                'specification\'s input domain (claims x targets x proofs over a small alphabet, incl. wrong positions, wrong '
                'trees, duplicated and nested targets, non-existent positions, altered/dropped/inserted proof hashes, zero '
                'proof hashes) is given to all six verifier entry points; an acceptance is a behaviour of the '
                'specification only if ClaimsTrue holds. Judged by the harness on the specification\'s node table and '
                'cross-validated by TLC on the recorded acceptance trace. The verification algorithm is modelled as a TLA+ function (spec/VerifierFun.tla): TLC checks accept => ClaimsTrue over the same domain and refutes four variants that re-introduce repaired defects. Entry points also include instances reached through a block+verify+undo detour, remembering verifiers and a map forest allocated one row too many; on large forests (driver) honest proofs are mutated in structured ways and every acceptance is judged by TLC (spec/CoreTrace.tla).',
        'design_ref': 'DESIGN.md section 5 (C03)',
        'note': COMMON_NOTE,
        'technique': 'TLA+ verifier model checked by TLC (soundness + negative demonstrations); enumerated product against the real verifiers with acceptances trace-validated by TLC (R->T); structured mutation of honest proofs on driver histories (R->T)',
    },
    'C04': {
        'text': 'Structured enumeration of malformed inputs per abstract state (domain from spec/Adversary.tla extended with '
                '64-bit boundary tokens, length mismatches, oversized proofs, huge synthetic stumps) against all verifier '
                'entry points and Stump.Update, each call under a watchdog with panics recovered; rejected updates must '
                'leave the stump bit-identical. The specification\'s VerifyCall is total; a start without a return is not a '
                'behaviour.',
        'design_ref': 'DESIGN.md section 5 (C04), section 8',
        'note': COMMON_NOTE + ' Termination is judged by a time budget (20 s per call on inputs of at most a few dozen elements).',
        'technique': 'TLA+ model of the verifier loop checked by TLC for termination (liveness) and a step bound; TLA+ spec defines states + input domain; native enumeration against the real entry points with watchdog and atomicity check',
    },
    'C05': {
        'text': 'Bounded exhaustive model checking over blocks x encodings: the abstract effect of a block in spec/Core.tla '
                'does not depend on the encoding of its proof, so every encoding the real Verify accepts (permuted, padded, '
                'assembled by AddProof, cut by GetProofSubset) must drive Stump, Pollard and full/partial MapPollard (all '
                'TotalRows of the tier) to the same reference roots. TLC checks on spec/VerifierFun.tla that the deletion walk of an accepted proof yields Roots(n, live \\ D); encodings are also tried from states reached through an undo (every undone block) or a serialization round trip.',
        'design_ref': 'DESIGN.md section 5 (C05)',
        'note': COMMON_NOTE,
        'technique': 'TLA+ spec + TLC BFS over (state, block, encoding), conditional replay on the code (G->R)',
    },
    'C16': {
        'text': 'Model-based testing from an explicit TLA+ model of the position geometry (spec/GeometryBits.tla): positions '
                'are (row, digit string) pairs so that all 64-bit heights are representable in TLC; the state graph of the '
                'cursor machine is generated by TLC (exhaustively for heights 0..8, on boundary and pseudo-random digit '
                'strings for every height up to 63) and every transition is executed against the exported function it '
                'models. TLC proves the inverse laws on the model and its agreement with the numeric geometry of '
                'spec/Forest.tla for small heights.',
        'design_ref': 'DESIGN.md section 5 (C16)',
        'note': COMMON_NOTE + ' The numeric value of a position is computed by the harness from the closed formula of the '
                'property text (row r starts at 2^(R+1) - 2^(R+1-r)).',
        'technique': 'TLA+ model of a pure function family; TLC state graph turned into one implementation test per transition (G->R)',
    },
    'C13': {
        'text': 'Model checking plus exhaustive fault enumeration: TLC proves on spec/Serial.tla that a field-completing decoder '
                'accepts exactly the complete streams under every reader chunking and truncation (and finds the violation for '
                'the single-Read decoder); Restore is a stuttering action of the API-level specifications, inserted by TLC at '
                'every point of every behaviour in bounds, after which the real restored instance must be observationally '
                'identical and evolve identically; on every such state all truncation points x reader policies and all sink '
                'failure offsets are run against the real code, judged by the relation RestoreOutcome/WriteOutcome and '
                'trace-validated by TLC.',
        'design_ref': 'DESIGN.md section 5 (C13)',
        'note': COMMON_NOTE,
        'technique': 'TLA+ decoder/reader-contract model checked by TLC; Restore action replayed (G->R) with native fault enumeration; fault events validated by TLC (R->T)',
    },
    'C15': {
        'text': 'Bounded exhaustive generation plus relational trace validation: TLC enumerates the block histories of spec/Core.tla; '
                'the real CachingScheduleTracker is fed each history and asked for the schedule under every memory limit; the '
                'property is the relation SchedOK of spec/Schedule.tla between history, limit and schedule, evaluated on every '
                'output by the harness (from slot bookkeeping only) and by TLC on the recorded events, together with a '
                'satisfiability check of the relation for the same history. TLC also model-checks the forward pass of the algorithm '
                '(spec/ScheduleAlg.tla: bounded cache of (slot, time to live) pairs) against the relation over every history, limit and '
                'offering order in bounds, with two refuted variants.',
        'design_ref': 'DESIGN.md section 5 (C15)',
        'note': COMMON_NOTE,
        'technique': 'TLA+ relation SchedOK; histories generated by TLC (G->R), outputs of the code validated by TLC against the relation (R->T)',
    },
    'C12': {
        'text': 'Model checking of the lock protocol plus schedule replay: TLC checks on spec/MapLock.tla, over all interleavings '
                'of a writer with interior points and readers under RWMutex semantics, that every query returns a whole-block '
                'state inside its call window, that there is no deadlock and that the writer makes progress (and that an '
                'unlocked getter breaks this). The schedules of the model are replayed on the real MapPollard by suspending '
                'the real writer inside its critical section through build-tag guarded hooks; free-running stress under the '
                'Go race detector covers data races; all calls are trace-validated against AtomicBlocks.',
        'design_ref': 'DESIGN.md section 5 (C12)',
        'note': COMMON_NOTE + ' Also trusted: the Go race detector; the sequential answers used as whole-block references.',
        'technique': 'TLA+ model of RWMutex/writer/readers checked by TLC (safety + liveness); TLC-generated schedules replayed through hooks; race-detector stress; call log validated by TLC (R->T)',
    },
}
