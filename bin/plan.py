"""Per-property verification plans: which TLC configurations generate the
behaviours, which harness family replays them, and the bounds per tier.
Bounds were fitted to measured state counts (see DESIGN.md section 7)."""


def S(xs):
    return '{' + ', '.join('"%s"' % x for x in xs) + '}'


def core(name, acts, maxn, adds, stack=0, und=0, rst=0, perm=3, invariants=True, probe=0, minn=0, initlive=99, undone=False, reuse=0, trackenc=False, **kw):
    st = {
        'kind': 'gen_replay', 'name': name, 'module': 'Core', 'fam': 'core', 'spec': 'Spec', 'view': 'View',
        'constants': {'MaxN': maxn, 'MaxAdds': adds, 'MaxStack': stack, 'MaxUnd': und, 'MaxRst': rst,
                      'Acts': S(acts), 'MaxPerm': perm, 'MaxProbe': probe, 'MinN': minn, 'InitLive': initlive, 'TrackUndone': 'TRUE' if undone else 'FALSE', 'MaxReuse': reuse, 'TrackEnc': 'TRUE' if trackenc else 'FALSE'},
        'invariants': ['TypeOK', 'RootCountOK', 'NodesOK', 'LabOK'] if invariants else ['TypeOK', 'LabOK'],
    }
    st.update(kw)
    return st


LEVEL_TEXT = {}

PLAN = {}

# --------------------------------------------------------------------------- C01
PLAN['C01'] = {
    'stages': lambda tier, seed: (
        [core('core_bfs', ['mod'], 8, 3)] if tier == 'quick' else
        [core('core_bfs', ['mod'], 10, 5),
         core('core_bfs_wide', ['mod'], 12, 12, invariants=False, constraint='SparseLive')]),
    'rule': 'TLC enumerates breadth-first every block (any deletion subset, 0..MaxAdds additions) from every reachable '
            'abstract state (n, live) of spec/Core.tla; each transition is emitted once with a witness history and the '
            'expected roots after every step and is replayed on Stump, Pollard and full/partial MapPollard for every '
            'TotalRows of the tier. A case is non-trivial when its last block deletes or adds something; distinct by '
            '(witness history, block).',
    'bounds': {'quick': 'n<=8, adds 0..3, all deletion subsets; TotalRows in {0,1,2,3,4,7,50,62,63}',
               'thorough': 'n<=10, adds 0..5, all deletion subsets (+ n<=12, adds 0..12 on sparse states); TotalRows 0..63'},
    'exhaustive': {'quick': True, 'thorough': True},
    'assumptions': [
        'hashes are modelled by a free term algebra (no collisions); leaves are the distinct non-empty hashes L0, L1, ...',
        'the reference semantics spec/Forest.tla (Val/Place over (n, live)) is the meaning of the property text',
        'exhaustive only within the stated bounds; no inductive argument for all n',
    ],
}

# --------------------------------------------------------------------------- C02
PLAN['C02'] = {
    'stages': lambda tier, seed: (
        [core('core_prove', ['mod', 'prove'], 6, 3),
         core('core_prove_undo', ['mod', 'prove', 'undo'], 5, 2, stack=1, und=1, probe=1)] if tier == 'quick' else
        [core('core_prove', ['mod', 'prove'], 8, 4),
         core('core_prove_undo', ['mod', 'prove', 'undo'], 6, 3, stack=1, und=1, probe=1)]),
    'rule': 'in every reachable state of spec/Core.tla TLC emits Prove(S, order) for every non-empty subset S of the live '
            'leaves (all permutations for |S|<=3, ascending/descending/rotated beyond) with the canonical proof '
            'CanonProof(S) and the tree set TreesOf(S) from spec/Forest.tla; the harness compares the output of '
            'Pollard.Prove, full MapPollard.Prove and partial MapPollard.Prove (when S is cached) for exact equality and '
            'gives the canonical proof to every verifier. Every emitted Prove is non-trivial; distinct by (state witness, order).',
    'bounds': {'quick': 'n<=6, adds 0..3; plus histories with one recorded query and one undo, n<=5, adds 0..2', 'thorough': 'n<=8, adds 0..4; plus histories with one recorded query and one undo, n<=6'},
    'exhaustive': {'quick': True, 'thorough': True},
    'assumptions': ['free term algebra for hashes', 'exhaustive only within the stated bounds'],
}

# --------------------------------------------------------------------------- C06
PLAN['C06'] = {
    'stages': lambda tier, seed: (
        [core('core_undo1', ['mod', 'undo'], 7, 3, stack=1, und=1),
         core('core_undo2', ['mod', 'undo', 'prove'], 4, 2, stack=2, und=2, probe=1)] if tier == 'quick' else
        [core('core_undo1', ['mod', 'undo'], 8, 4, stack=1, und=1),
         core('core_undo2', ['mod', 'undo', 'prove'], 6, 3, stack=2, und=2, probe=1),
         core('core_undo3', ['mod', 'undo'], 6, 2, stack=3, und=3),
         core('core_undo_wide', ['mod', 'undo'], 16, 5, stack=1, und=1, minn=9, initlive=3, invariants=False,
              x='only=undo,rows=0;3;63', timeout=20000)]),
    'rule': 'spec/Core.tla with the undo stack in the state: from every reachable state every block is applied, undone '
            '(Pollard.Undo / MapPollard.Undo with the specification\'s canonical proof, deleted hashes and previous roots) '
            'and the behaviour continues from the restored state with every block again (redo on the same or another '
            'branch). After the undo the complete observation (roots, leaf count, position of every live and dead leaf, '
            'GetHash on every position, provable set, proofs of subsets) must equal the expectation of the earlier '
            'abstract state. Non-trivial: the line contains an undo; distinct by (witness history, step).',
    'bounds': {'quick': 'depth 1: n<=7, adds 0..3; depth 2 (two undos, with Prove of every subset): n<=4, adds 0..2',
               'thorough': 'depth 1: n<=8, adds 0..4; depth 2: n<=6, adds 0..3; depth 3: n<=6, adds 0..2; wide (TotalRows 0, 3, 63): every state with 9..11 leaves of which at most 3 are live is an initial state, one block with 0..5 adds, undo, redo'},
    'exhaustive': {'quick': True, 'thorough': True},
    'assumptions': ['free term algebra for hashes',
                    'partial map forests delete only leaves first verified with remember (as the property states)',
                    'exhaustive only within the stated bounds'],
}

# --------------------------------------------------------------------------- C10
PLAN['C10'] = {
    'stages': lambda tier, seed: (
        [core('core_bfs', ['mod'], 8, 3),
         core('core_all', ['mod', 'undo', 'restore'], 6, 3, stack=1, und=1, rst=1)] if tier == 'quick' else
        [core('core_bfs', ['mod'], 9, 4, x='rows=0;1;2;3;4;5;7;31;50;62;63', timeout=14000),
         core('core_all', ['mod', 'undo', 'restore'], 6, 3, stack=2, und=2, rst=1, timeout=14000)]),
    'rule': 'after the last step of every emitted behaviour of spec/Core.tla the harness looks up every leaf hash ever '
            'added (live and dead), every internal node hash and fresh hashes (GetLeafPosition, GetLeafHashPositions), '
            'reads every position 0..2^(rows+1)+4 (GetHash) and the tracked-leaf counters, on Pollard and full/partial '
            'MapPollard for every TotalRows of the tier, and compares with Nodes/PosOf of spec/Forest.tla. Non-trivial: '
            'the last step changes the state; distinct by (witness history, step).',
    'bounds': {'quick': 'n<=8 (blocks only); n<=6 with undo depth 1 and one serialization round trip',
               'thorough': 'n<=9, adds 0..4 (blocks only; TotalRows 0..5, 7, 31, 50, 62, 63); n<=6 with undo depth 2 and one round trip (TotalRows 0..63)'},
    'exhaustive': {'quick': True, 'thorough': True},
    'assumptions': ['free term algebra for hashes (the 12-byte NodeMap key prefixes cannot collide)',
                    'exhaustive only within the stated bounds'],
}

# --------------------------------------------------------------------------- C11
PLAN['C11'] = {
    'stages': lambda tier, seed: (
        [core('core_bfs', ['mod'], 8, 3)] if tier == 'quick' else
        [core('core_bfs', ['mod'], 10, 5)]),
    'rule': 'every block transition of spec/Core.tla carries UpdateDataRef (spec/Forest.tla): PrevNumLeaves, ToDestroy in '
            'order of destruction, NewDel and NewAdd as sorted (position, hash) lists; the value returned by Stump.Update '
            'is compared field by field, as exact sequences. Non-trivial: the block deletes or adds; distinct by '
            '(witness history, block).',
    'bounds': {'quick': 'n<=8, adds 0..3, all deletion subsets', 'thorough': 'n<=10, adds 0..5, all deletion subsets'},
    'exhaustive': {'quick': True, 'thorough': True},
    'assumptions': ['free term algebra for hashes', 'exhaustive only within the stated bounds'],
}

# --------------------------------------------------------------------------- C17
PLAN['C17'] = {
    'stages': lambda tier, seed: (
        [core('core_all', ['mod', 'undo', 'prove', 'restore'], 5, 3, stack=1, und=1, rst=1)] if tier == 'quick' else
        [core('core_all', ['mod', 'undo', 'prove', 'restore'], 6, 3, stack=1, und=1, rst=1, timeout=14000)]),
    'rule': 'every library call made while replaying the behaviours of spec/Core.tla (Verify, Stump.Update, '
            'Pollard/MapPollard Verify, Prove, Modify, Undo, GetLeafHashPositions) receives its slices with spare '
            'capacity filled with sentinels; contents, length and spare capacity are compared after the call, and every '
            'result returned earlier in the behaviour (proofs, update data) is re-compared after every later call. '
            'Non-trivial: a state-changing or proving step; distinct by (witness history, step).',
    'bounds': {'quick': 'n<=5, undo depth 1, one round trip', 'thorough': 'n<=6, undo depth 1, one round trip'},
    'exhaustive': {'quick': True, 'thorough': True},
    'assumptions': ['only mutations observable through the passed slices (contents, spare capacity) are detected'],
}


def light(name, acts, maxn, adds, stack=0, und=0, props=None, minn=99, initdead=0, initheld=0, **kw):
    st = {
        'kind': 'gen_replay', 'name': name, 'module': 'LightClient', 'fam': 'light', 'spec': 'Spec', 'view': 'View',
        'constants': {'MaxN': maxn, 'MaxAdds': adds, 'MaxStack': stack, 'MaxUnd': und, 'Acts': S(acts),
                      'MinN': minn, 'InitDead': initdead, 'InitHeld': initheld},
        'invariants': ['TypeOK'],
    }
    if props:
        st['properties'] = props
    st.update(kw)
    return st


# --------------------------------------------------------------------------- C07
PLAN['C07'] = {
    'stages': lambda tier, seed: (
        [light('light_bfs', ['block'], 6, 3, props=['Sufficient'])] if tier == 'quick' else
        [light('light_bfs', ['block'], 7, 4, props=['Sufficient'])]),
    'rule': 'spec/LightClient.tla: from every reachable (n, live, held) TLC enumerates every block (all deletion subsets, '
            '0..MaxAdds additions) with every subset of added-leaf indexes to remember; the harness runs the real pipeline '
            'Stump.Update -> UpdateData -> Proof.Update from an empty cached proof and compares the (leaf, position) pairs '
            'as a set and the proof hashes as a sequence with CanonProof(held\') of spec/Forest.tla, then Verify and a '
            'full prover (Pollard.Prove) on the same leaves. TLC also checks the design theorem Sufficient (every hash of '
            'the new canonical proof is an old proof hash, an old leaf hash or listed in UpdateDataRef). Non-trivial: the '
            'block deletes or adds; distinct by (witness history, block, remember set).',
    'bounds': {'quick': 'n<=6, adds 0..3, all remember subsets', 'thorough': 'n<=7, adds 0..4, all remember subsets'},
    'exhaustive': {'quick': True, 'thorough': True},
    'assumptions': ['free term algebra for hashes', 'exhaustive only within the stated bounds'],
}

# --------------------------------------------------------------------------- C08
PLAN['C08'] = {
    'stages': lambda tier, seed: (
        [light('light_undo1', ['block', 'undoblock'], 5, 3, stack=1, und=1, x='big=150,lightbig=1'),
         light('light_undo2', ['block', 'undoblock'], 4, 2, stack=2, und=2)] if tier == 'quick' else
        [light('light_undo1', ['block', 'undoblock'], 6, 3, stack=1, und=1, x='big=100,lightbig=1'),
         light('light_undo2', ['block', 'undoblock'], 5, 3, stack=2, und=2),
         light('light_undo3', ['block', 'undoblock'], 5, 2, stack=3, und=3)]),
    'rule': 'spec/LightClient.tla with the undo stack in the state: every block of every reachable (n, live, held) is '
            'applied to the real cached proof and undone with Proof.Undo (block data from the specification), newest '
            'first to depth 1..3, and every continuation (further blocks on the same or another branch) is explored. After '
            'each undo the client must hold exactly held \\ added with the canonical proof in the pre-block forest, and it '
            'must verify against the previous stump. Non-trivial: the line contains an undo; distinct by (witness history, step).',
    'bounds': {'quick': 'depth 1: n<=5, adds 0..3; depth 2: n<=4, adds 0..2',
               'thorough': 'depth 1: n<=6, adds 0..3; depth 2: n<=5; depth 3: n<=5, adds 0..2'},
    'exhaustive': {'quick': True, 'thorough': True},
    'assumptions': ['free term algebra for hashes', 'leaves the undone block itself deleted are not restored (documented)',
                    'exhaustive only within the stated bounds'],
}


def ops(name, acts, maxn, invariants=None, minn=0, maxreq=99, **kw):
    st = {
        'kind': 'gen_replay', 'name': name, 'module': 'ProofOps', 'fam': 'ops', 'spec': 'Spec',
        'constants': {'MaxN': maxn, 'Acts': S(acts), 'MaxPerm': 3, 'MinN': minn, 'MaxReq': maxreq},
        'invariants': invariants or [],
    }
    st.update(kw)
    return st


# --------------------------------------------------------------------------- C14
PLAN['C14'] = {
    'stages': lambda tier, seed: (
        [ops('ops_add', ['addproof'], 5, ['UnionSufficient']),
         ops('ops_subset', ['subset'], 5),
         ops('ops_missing', ['missing'], 5, ['MissingExact'])] if tier == 'quick' else
        [ops('ops_add', ['addproof'], 7, ['UnionSufficient']),
         ops('ops_subset', ['subset'], 7),
         ops('ops_missing', ['missing'], 7, ['MissingExact'])]),
    'rule': 'spec/ProofOps.tla: every abstract state (n, live) within the bound is an initial state; TLC enumerates '
            'AddProof(A, B) for all pairs of non-empty live sets (overlapping, nested, different trees) in ascending and '
            'descending parallel order, GetProofSubset(S, W) for all S and all W with at most one want outside S in all '
            'request orders, and the missing positions for all (A, B), each with the expected canonical result from '
            'spec/Forest.tla; the harness calls AddProof, GetProofSubset, GetMissingPositions, and on a partial map forest '
            'started from the bare roots that ingested the proof of A, MapPollard.GetMissingPositions and '
            'VerifyPartialProof with the true hashes at the missing positions. TLC also checks UnionSufficient and '
            'MissingExact on the specification. Every emitted call is non-trivial; distinct by (state, arguments).',
    'bounds': {'quick': 'n<=5, all states', 'thorough': 'n<=7, all states'},
    'exhaustive': {'quick': True, 'thorough': True},
    'assumptions': ['free term algebra for hashes', 'the partial map forest for completion is the from-roots one (TotalRows 63)',
                    'exhaustive only within the stated bounds'],
}


def partial(name, acts, maxn, adds, stack=0, und=0, fr=0, rst=0, last=False, minn=99, wideextra=0, **kw):
    st = {
        'kind': 'gen_replay', 'name': name, 'module': 'Partial', 'fam': 'partial', 'spec': 'Spec', 'view': 'View',
        'constants': {'MaxN': maxn, 'MaxAdds': adds, 'MaxStack': stack, 'MaxUnd': und, 'MaxFr': fr, 'MaxRst': rst, 'Acts': S(acts), 'TrackLast': 'TRUE' if last else 'FALSE', 'MinN': minn, 'WideExtra': wideextra},
        'invariants': ['TypeOK', 'BoundsOK'],
    }
    st.update(kw)
    return st


ALLP = ['mod', 'badmod', 'badvrem', 'vrem', 'ingest', 'prune', 'undo', 'fromroots']

# --------------------------------------------------------------------------- C09
PLAN['C09'] = {
    'stages': lambda tier, seed: (
        [partial('partial_all', ALLP, 4, 2, stack=1, und=1, fr=1, last=True),
         partial('partial_5', ['mod', 'vrem', 'prune'], 5, 2)] if tier == 'quick' else
        [partial('partial_all', ALLP, 5, 3, stack=2, und=2, fr=1),
         partial('partial_last', ALLP, 5, 2, stack=1, und=1, fr=1, last=True),
         partial('partial_6', ['mod', 'vrem', 'prune', 'undo'], 6, 3, stack=1, und=1)]),
    'rule': 'spec/Partial.tla: TLC enumerates breadth-first all interleavings of Modify (deleting any subset of the '
            'remembered leaves, every remember subset of the additions), Verify(remember) and Ingest of any set of live '
            'leaves, Prune of any set of leaf hashes ever added, Undo and re-creation from the bare roots; after the last '
            'step the harness dumps CachedLeaves and Nodes of the real partial MapPollard (TotalRows 0/3/63; from-roots '
            'instance) and checks: leaf index = {Leaf(s) -> PosOf(s) : s in cached}; every stored position holds '
            'NodeAt(position); StoredLower(cached) within stored within StoredUpper(cached); Prove(cached) = CanonProof; every '
            'remembered leaf provable alone. TLC checks BoundsOK on the specification (the lower bound suffices to prove '
            'every subset). Non-trivial: anything but an empty block; distinct by (witness history, step).',
    'bounds': {'quick': 'all actions: n<=4, adds 0..2, undo depth 1, one from-roots restart, one witness history per (state, kind of last action); blocks/verify/prune: n<=5',
               'thorough': 'all actions: n<=5, adds 0..3, undo depth 2; blocks/verify/prune/undo: n<=6'},
    'exhaustive': {'quick': True, 'thorough': True},
    'assumptions': ['free term algebra for hashes', 'proofs handed to Verify(remember)/Ingest are the specification\'s canonical ones',
                    'exhaustive only within the stated bounds'],
}


def adv(name, mode, maxn, maxclaim, maxproof, **kw):
    st = {
        'kind': 'gen_replay', 'name': name, 'module': 'Adversary', 'fam': 'adv', 'spec': 'Spec',
        'constants': {'MaxN': maxn, 'MaxClaim': maxclaim, 'MaxProof': maxproof, 'NJunk': 2},
        'invariants': ['DomainOK'], 'x': 'mode=' + mode, 'harness_workers': 2,
    }
    st.update(kw)
    return st


# --------------------------------------------------------------------------- C03
PLAN['C03'] = {
    'stages': lambda tier, seed: (
        [adv('adv_sound', 'c03', 4, 2, 2, trace_module='AdversaryTrace')] if tier == 'quick' else
        [adv('adv_sound', 'c03', 5, 2, 2, trace_module='AdversaryTrace', timeout=14000),
         adv('adv_sound3', 'c03', 3, 3, 3, trace_module='AdversaryTrace', timeout=14000)]),
    'rule': 'spec/Adversary.tla makes every abstract state (n, live) within the bound an initial state and emits its input '
            'domain: claimed hashes = every node hash (all leaves, internal nodes, non-zero roots) and fresh values; '
            'targets = every position of the geometry and the three numbers beyond it; proof hashes = the same alphabet '
            'plus the zero hash. The harness forms the complete product (claims up to MaxClaim, proofs up to MaxProof) '
            'against Verify, Pollard.Verify, MapPollard.Verify (TotalRows 63 and grow-on-demand) and VerifyPartialProof '
            '(full forest, from-roots forest); every acceptance must satisfy ClaimsTrue (node table from the '
            'specification) and is logged; the log is validated by TLC against spec/AdversaryTrace.tla (R->T). '
            'evaluations = states; library_calls_monitored = verifier calls.',
    'bounds': {'quick': 'n<=4 (31 states), claims<=2, proofs<=2: 21.9 M verifier calls',
               'thorough': 'n<=5, claims<=2, proofs<=2; n<=3, claims<=3, proofs<=3'},
    'exhaustive': {'quick': True, 'thorough': True},
    'assumptions': ['free term algebra for hashes: "barring a hash collision" holds by construction',
                    'claimed hashes are non-zero (as the property states); the zero hash may occur in the proof',
                    'at most 20000 acceptances per run are handed to TLC for trace validation (all are judged by the harness)'],
}

# --------------------------------------------------------------------------- C04
PLAN['C04'] = {
    'stages': lambda tier, seed: (
        [adv('adv_total', 'c04', 4, 2, 2)] if tier == 'quick' else
        [adv('adv_total', 'c04', 6, 2, 2, timeout=14000)]),
    'rule': 'per abstract state of spec/Adversary.tla the harness calls Verify, Stump.Update, Pollard.Verify, '
            'MapPollard.Verify and MapPollard.VerifyPartialProof with malformed input: every position plus 2^(R+1)-1.., '
            '2^32, 2^62+3, 2^63, 2^64-2, 2^64-1 as targets, duplicates and nested pairs, hash lists longer/shorter than '
            'the target lists, zero hashes, proofs of length 0..2 and an oversized one, and synthetic well-formed stumps '
            'with 2^31+5 .. 2^64-1 leaves. Every call runs under a watchdog (20 s budget, i.e. > 10^7 times the honest '
            'cost) with panics recovered; after a rejected Stump.Update leaf count and roots are compared with a '
            'snapshot. evaluations = states; library_calls_monitored = calls.',
    'bounds': {'quick': 'n<=4 (31 states): 4.2 M calls, 0.55 M rejected updates', 'thorough': 'n<=6 (127 states)'},
    'exhaustive': {'quick': False, 'thorough': False},
    'assumptions': ['"polynomial time" is not decidable by this technique: what is checked is return within a budget several '
                    'orders of magnitude above the honest cost on inputs of bounded size',
                    'the malformed-input domain is the structured one described in the rule, not all of uint64^k'],
}


# --------------------------------------------------------------------------- C05
PLAN['C05'] = {
    'stages': lambda tier, seed: (
        [core('core_enc', ['mod', 'enc'], 5, 2, invariants=False)] if tier == 'quick' else
        [core('core_enc', ['mod', 'enc'], 6, 3, invariants=False)]),
    'rule': 'spec/Core.tla with the action parameter enc: every block of every reachable state is emitted in every '
            'encoding of its deletion proof - targets and hashes in every permutation (|D|<=3; ascending/descending/rotated '
            'beyond) with 0, 1 or 2 unused trailing proof hashes, assembled by the real AddProof from the canonical proofs '
            'of every split D = A u B (disjoint and overlapping), and cut out of the canonical proof of every superset S '
            '(|S|<=|D|+2) by the real GetProofSubset. The harness asks the real Verify; if and only if it accepts, the same '
            '(hashes, proof, additions) go to Stump.Update, Pollard.Modify and full/partial MapPollard.Modify (partial: after '
            'Verify with remember of that same proof) and all roots must equal the encoding-independent expectation. '
            'Non-trivial: a block that deletes or adds; distinct by (witness history, block, encoding).',
    'bounds': {'quick': 'n<=5, adds 0..2', 'thorough': 'n<=6, adds 0..3; TotalRows 0..63'},
    'exhaustive': {'quick': True, 'thorough': True},
    'assumptions': ['free term algebra for hashes', 'nothing is claimed for encodings the real Verify rejects (the property is conditional on acceptance); the counts of accepted encodings per kind are in the evidence',
                    'encodings through a cached-proof update are covered by C07 (the updated proof equals the canonical one)'],
}


def geom(name, mode, maxr=0, hs=(), seed=1, nrand=0, maxpp=0, invariants=None, **kw):
    st = {
        'kind': 'gen_replay', 'name': name, 'module': 'GeometryBits', 'fam': 'geom', 'spec': 'Spec', 'view': 'View',
        'constants': {'Mode': '"%s"' % mode, 'MaxR': maxr, 'Hs': '{' + ', '.join(str(h) for h in hs) + '}',
                      'Seed': seed % 100000, 'NRand': nrand, 'MaxPP': maxpp},
        'invariants': invariants or (['TypeOK', 'InverseLaws', 'AgreesWithForest', 'ConstructiveOK'] if mode == 'exh'
                                     else ['TypeOK', 'InverseLaws']),
    }
    st.update(kw)
    return st


# --------------------------------------------------------------------------- C16
PLAN['C16'] = {
    'stages': lambda tier, seed: (
        [geom('geom_exh', 'exh', maxr=6, maxpp=8),
         geom('geom_pat', 'pat', hs=(7, 15, 16, 17, 31, 32, 33, 47, 62, 63), seed=seed, nrand=2)] if tier == 'quick' else
        [geom('geom_exh', 'exh', maxr=8, maxpp=11),
         geom('geom_pat', 'pat', hs=tuple(range(5, 64)), seed=seed, nrand=4, timeout=10000)]),
    'rule': 'spec/GeometryBits.tla: a cursor machine over positions written as (row, digit string of the offset) - parent = '
            'drop the last digit, children = append 0/1, re-allocation = pad/strip leading zeros - plus a leaf count as a '
            'digit string. Every transition TLC generates is one test of an exported function: Parent, LeftChild, RightChild, '
            'ParentMany, ChildMany, DetectRow, translatePos (through the verif export), RootPositions, TreeRows, DetectOffset '
            '(tree index, branch length, and the bit field judged through its documented niece-pointer descent) and '
            'ProofPositions (exact sequence of proof positions, set of computable ancestors; single targets at every height, '
            'every antichain of targets of small forests, each asked in 7 allocations up to 63 rows). Mode exh: every height '
            '0..MaxR, every position, every leaf count; mode pat: heights up to 63 with boundary digit strings (all 0, all 1, '
            'single digit, alternating) and pseudo-random ones from VERIF_SEED. TLC checks the inverse laws on the '
            'specification and, for small heights, that the digit-string geometry equals the numeric geometry of '
            'spec/Forest.tla used by all other properties. Non-trivial: every transition; distinct by (operation, arguments).',
    'bounds': {'quick': 'exhaustive: heights 0..6, antichains of forests with <=8 leaves; patterns: heights 7,15,16,17,31,32,33,47,62,63',
               'thorough': 'exhaustive: heights 0..8, antichains of forests with <=11 leaves; patterns: every height 5..63, 4 random strings per length'},
    'exhaustive': {'quick': False, 'thorough': False},
    'assumptions': ['TLC integers are 32 bit: heights above the exhaustive bound are covered by boundary and pseudo-random digit '
                    'strings, not exhaustively',
                    'ProofPositions is judged on antichains of in-forest targets (the only inputs the library produces)',
                    'DetectOffset is judged on positions inside the forest'],
}


# C17 spans every family that passes caller-owned slices to the library (the monitor is active in all of them)
_c17_core = PLAN['C17']['stages']
PLAN['C17']['stages'] = lambda tier, seed: (
    _c17_core(tier, seed) +
    ([light('light_undo1', ['block', 'undoblock'], 5, 3, stack=1, und=1),
      ops('ops_add', ['addproof'], 5), ops('ops_subset', ['subset'], 5), ops('ops_missing', ['missing'], 5),
      partial('partial_all', ALLP, 4, 2, stack=1, und=1, fr=1)] if tier == 'quick' else
     [light('light_undo2', ['block', 'undoblock'], 5, 3, stack=2, und=2),
      ops('ops_add', ['addproof'], 6), ops('ops_subset', ['subset'], 6), ops('ops_missing', ['missing'], 6),
      partial('partial_all', ALLP, 5, 3, stack=2, und=2, fr=1)]))
PLAN['C17']['rule'] = (
    'every library call made while replaying the behaviours of spec/Core.tla (Verify, Stump.Update, Pollard/MapPollard '
    'Verify, Prove, Modify, Undo, GetLeafHashPositions), spec/LightClient.tla (Stump.Update, Proof.Update, Proof.Undo, '
    'Verify), spec/ProofOps.tla (AddProof, GetProofSubset, MapPollard.GetMissingPositions, VerifyPartialProof) and '
    'spec/Partial.tla (Verify with remember, Ingest, Prune, Modify, Undo, Prove) receives its slices with spare capacity '
    'filled with sentinels; contents, length and spare capacity are compared after the call, and every result returned '
    'earlier in the behaviour (proofs, hash lists, update data) is re-compared after every later call. Non-trivial: a '
    'state-changing or proving step; distinct by (witness history, step).')
PLAN['C17']['bounds'] = {'quick': 'core: n<=5, undo depth 1, one round trip; light client: n<=5 undo depth 1; proof operations: all states n<=5; partial forest: n<=4',
                         'thorough': 'core: n<=6, undo depth 1; light client: n<=5 depth 2; proof operations: n<=6; partial forest: n<=5'}


def serial_spec(name, decoder, frames, negative=False):
    st = {'kind': 'spec_check', 'name': name, 'module': 'Serial', 'spec': 'Spec',
          'constants': {'Frames': '<- ' + frames, 'Decoder': '"%s"' % decoder, 'AllowDataEOF': 'TRUE'},
          'invariants': ['TypeOK', 'Sound', 'Complete'], 'properties': ['Total_']}
    if negative:
        st['expect_violation'] = True
    return st


# --------------------------------------------------------------------------- C13
PLAN['C13'] = {
    'stages': lambda tier, seed: (
        [serial_spec('serial_full', 'full', 'FramesSmall'),
         serial_spec('serial_single_neg', 'single', 'FramesSmall', negative=True),
         core('core_restore', ['mod', 'undo', 'restore'], 4, 2, stack=1, und=1, rst=1,
              x='serial=1,rows=0;3;63,maxtrace=30000', trace_module='SerialTrace'),
         partial('partial_restore', ['mod', 'vrem', 'prune', 'undo', 'restore'], 4, 2, stack=1, und=1, rst=1,
                 x='serial=1,maxtrace=30000', trace_module='SerialTrace')] if tier == 'quick' else
        [serial_spec('serial_full', 'full', 'FramesBig'),
         serial_spec('serial_single_neg', 'single', 'FramesSmall', negative=True),
         core('core_restore', ['mod', 'undo', 'restore'], 6, 3, stack=1, und=1, rst=1,
              x='serial=1,rows=0;1;3;50;63,maxtrace=30000', trace_module='SerialTrace', timeout=14000),
         core('core_restore2', ['mod', 'undo', 'restore'], 5, 2, stack=2, und=2, rst=2, x='rows=0;3;63'),
         partial('partial_restore', ALLP + ['restore'], 5, 2, stack=1, und=1, fr=1, rst=1,
                 x='serial=1,maxtrace=30000', trace_module='SerialTrace', timeout=14000)]),
    'rule': 'spec/Serial.tla: (1) TLC model-checks a decoder that completes every field against the io.Reader contract - every '
            'chunking, data-with-EOF, every truncation point of every framing in bounds: accept => stream complete and consumed '
            'exactly, complete stream never rejected, termination; the single-Read decoder is kept as a negative demonstration '
            '(TLC must find the violation). (2) Restore is an action of spec/Core.tla and spec/Partial.tla that stutters on the '
            'abstract state: TLC inserts it anywhere in a behaviour, the harness restores every forest (Pollard, full/partial '
            'MapPollard, TotalRows of the tier) from its own bytes under a reader policy drawn from {whole, 1 byte, halves, random, '
            'data+EOF, 1 byte+data+EOF}, compares the restored instance observationally (roots, count, every leaf position, every '
            'position read, proofs) and continues the behaviour on it (further blocks, undo). (3) On the state of every restore '
            'transition the harness enumerates every truncation point 0..L under every reader policy and every failure offset of '
            'the sink (rejecting or partially accepting the crossing write); the outcome must satisfy RestoreOutcome / WriteOutcome '
            'of spec/Serial.tla; the recorded events are validated by TLC against spec/SerialTrace.tla (R->T). Byte counts and '
            'Pollard.SerializeSize must equal the stream length. Non-trivial: a line whose last step is a restore or follows one; '
            'distinct by (witness history, step).',
    'bounds': {'quick': 'decoder model: framings up to 2 nodes; core: n<=4, adds 0..2, undo depth 1, TotalRows {0,3,63}; partial: n<=4',
               'thorough': 'decoder model: framings up to 4 nodes; core: n<=6, adds 0..3, TotalRows {0,1,3,50,63}; two restores n<=5; partial: n<=5 with ingest and from-roots'},
    'exhaustive': {'quick': True, 'thorough': True},
    'assumptions': ['byte counts are judged on successful calls only (on a failing sink the property fixes only that an error is returned)',
                    'the wire format is not modelled byte by byte: content fidelity is covered through observational equality of the restored instance',
                    'free term algebra for hashes; exhaustive only within the stated bounds'],
}


# C14: the map forest's missing-position query on partial forests whose cache arises from blocks,
# verification with remembering and pruning (stored set = anything between StoredLower and StoredUpper)
_c14 = PLAN['C14']['stages']
PLAN['C14']['stages'] = lambda tier, seed: (
    _c14(tier, seed) +
    ([partial('partial_missq', ['mod', 'vrem', 'prune', 'missq'], 5, 2)] if tier == 'quick' else
     [partial('partial_missq', ['mod', 'vrem', 'prune', 'undo', 'missq'], 6, 3, stack=1, und=1)]))
PLAN['C14']['rule'] += (' In addition spec/Partial.tla emits, in every reachable state (n, live, cached) of a partial forest, '
                        'the query MissQ(B) for every non-empty set B of live leaves with the canonical proof positions of B; the '
                        'positions MapPollard.GetMissingPositions reports must be exactly those the instance does not store '
                        '(its Nodes are dumped), and VerifyPartialProof with the true hashes at those positions must accept and '
                        'with a fresh hash must reject.')
PLAN['C14']['bounds'] = {'quick': 'proof operations: n<=5, all states; partial forests: n<=5, adds 0..2',
                         'thorough': 'proof operations: n<=7, all states; partial forests: n<=6, adds 0..3, undo depth 1'}


# --------------------------------------------------------------------------- C15
PLAN['C15'] = {
    'stages': lambda tier, seed: (
        [core('sched_bfs', ['mod'], 9, 3, fam='sched', trace_module='ScheduleTrace', x='maxtrace=6000', invariants=False)] if tier == 'quick' else
        [core('sched_bfs', ['mod'], 10, 5, fam='sched', trace_module='ScheduleTrace', x='maxtrace=20000', invariants=False, timeout=14000)]),
    'rule': 'the block histories are the behaviours of spec/Core.tla (every deletion subset, 0..MaxAdds additions, from every '
            'reachable state, each with its breadth-first witness history); the harness records every block of a history in a '
            'CachingScheduleTracker - deletion targets are the canonical positions of the specification, i.e. what a prover emits - '
            'and calls GenerateCachingSchedule for every memory limit 1..n+1, a huge one, and 1 again, on the same tracker, plus a '
            'second tracker asked after every recorded block. Every output must satisfy the relation SchedOK of '
            'spec/Schedule.tla (entries are slots created in that block and deleted later, strictly ascending, never more than '
            'the limit alive at once, complete when the limit does not bind); a sample of the outputs and every failing one are '
            'validated by TLC against spec/ScheduleTrace.tla, which also checks that the relation is satisfiable for that '
            'history (R->T). Non-trivial: a history that deletes at least one leaf; distinct by (witness history, block).',
    'bounds': {'quick': 'n<=9, adds 0..3, all deletion subsets, limits 1..n+1', 'thorough': 'n<=10, adds 0..5, all deletion subsets, limits 1..n+1'},
    'exhaustive': {'quick': True, 'thorough': True},
    'assumptions': ['histories are breadth-first witnesses plus one block (shortest histories to every state), not all histories of a given length',
                    'deletion targets are given in ascending slot order'],
}


ALLKINDS = ['GetRoots', 'GetStump', 'Prove', 'Verify', 'GetLeafPosition', 'GetLeafHashPositions', 'GetHash',
            'GetMissingPositions', 'GetNumLeaves', 'GetTreeRows', 'Write', 'VerifyPartialProof',
            'Verify/remember', 'VerifyPartialProof/remember']


def maplock(name, readers, nblocks, nsites, kinds, unlocked=(), maxcalls=2, emit=False, **kw):
    st = {'kind': 'gen_replay' if emit else 'spec_check', 'name': name, 'module': 'MapLock', 'fam': 'lock', 'spec': 'Spec',
          'constants': {'Readers': '{' + ', '.join('r%d' % i for i in range(1, readers + 1)) + '}', 'NBlocks': nblocks,
                        'NSites': nsites, 'Kinds': S(kinds), 'UnlockedKinds': S(unlocked), 'MaxCalls': maxcalls,
                        'EmitSchedules': 'TRUE' if emit else 'FALSE'},
          'invariants': ['TypeOK', 'MutualExclusion', 'AtomicBlocks', 'NoDeadlock']}
    if not emit:
        st['properties'] = ['WriterProgress', 'BlockCompletes']
    st.update(kw)
    return st


# --------------------------------------------------------------------------- C12
PLAN['C12'] = {
    'stages': lambda tier, seed: (
        [maplock('maplock_mc', 2, 2, 3, ['GetRoots', 'GetNumLeaves']),
         maplock('maplock_unlocked_neg', 2, 2, 3, ['GetRoots', 'GetNumLeaves'], unlocked=['GetNumLeaves'], expect_violation=True),
         maplock('maplock_schedules', 2, 1, 4, ALLKINDS, maxcalls=1, emit=True, x='schedout={scratch}/schedules.json'),
         partial('lock_replay', ['mod', 'vrem', 'ingest', 'prune', 'undo'], 3, 2, stack=1, und=1, fam='lockrun', race=True,
                 x='sched={scratch}/schedules.json,persite=3,stress=2,maxtrace=30000,readpop=40', trace_module='MapLockTrace',
                 harness_workers=2)] if tier == 'quick' else
        [maplock('maplock_mc', 3, 2, 3, ['GetRoots', 'GetNumLeaves', 'Prove']),
         maplock('maplock_unlocked_neg', 2, 2, 3, ['GetRoots', 'GetNumLeaves'], unlocked=['GetNumLeaves'], expect_violation=True),
         maplock('maplock_schedules', 2, 1, 4, ALLKINDS, maxcalls=1, emit=True, x='schedout={scratch}/schedules.json'),
         partial('lock_replay', ['mod', 'vrem', 'ingest', 'prune', 'undo'], 4, 2, stack=1, und=1, fam='lockrun', race=True,
                 x='sched={scratch}/schedules.json,persite=12,stress=1,maxtrace=30000,readpop=40', trace_module='MapLockTrace',
                 harness_workers=2, timeout=14000)]),
    'rule': 'spec/MapLock.tla models one writer whose critical section passes through interior points, readers issuing queries, '
            'and Go\'s RWMutex with writer preference; TLC checks over all interleavings that the lock discipline implies '
            'AtomicBlocks (every query returns a whole-block state inside its call window), mutual exclusion, absence of deadlock '
            'and writer progress, and that an unlocked getter violates AtomicBlocks (negative demonstration). The same model, with '
            'all 12 query kinds, emits the schedules (writer suspended at interior point s while a set of queries is pending). '
            'The harness (race build) replays them on the real MapPollard: writer operations and states are the behaviours of '
            'spec/Partial.tla (Modify, Verify with remember, Ingest, Prune, Undo) plus Read into a fresh forest, for TotalRows 63 '
            'and 0; the writer is suspended at the interior point through the verif hook, the queries are issued, the writer is '
            'released; every result must equal the answer of the sequential whole-block state before or after the operation. '
            'Selected histories are additionally run free (4 readers hammering all query kinds while the writer applies the '
            'history); results must belong to a whole-block state inside [committed at call start, started at return], and any '
            'report of the Go race detector is a violation. All calls are logged and validated by TLC against '
            'spec/MapLockTrace.tla. Non-trivial: every line; distinct by (witness history, operation).',
    'bounds': {'quick': 'model: 2 readers x 2 calls, 2 blocks, 3 interior points; replay: partial-forest behaviours n<=3, 3 schedules per interior point and case, stress on every 2nd history',
               'thorough': 'model: 3 readers, 3 query kinds; replay: n<=4, 12 schedules per interior point and case, stress on every history'},
    'exhaustive': {'quick': False, 'thorough': False},
    'assumptions': ['the race detector only reports races that occur in the executed interleavings',
                    'whole-block answers come from sequential runs of the same code (their correctness is the subject of C01, C02, C09, C10)',
                    'interior points are the nine verif hook sites; suspension elsewhere inside a critical section is not exercised'],
}


def drive(tier, histories=None, maxn=None, blocks=None):
    q = tier == 'quick'
    return {'kind': 'drive', 'name': 'drive', 'cmd': 'drive', 'trace_module': 'CoreTrace',
            'trace_cfg': {'invariants': ['TraceReport']},
            'x': 'histories=%d,maxn=%d,blocks=%d' % (histories or (24 if q else 400), maxn or (40 if q else 64), blocks or (24 if q else 40)),
            'timeout': 1800 if q else 10800}


DRIVE_RULE = (' In addition (R->T) a driver runs long random block histories (deletion shapes: nothing, everything, aligned subtrees, '
              'sibling pairs, newest leaves, single leaves, random subsets, in ascending/descending/shuffled request order; 0..17 '
              'additions; undo of the newest block with probability 1/5, then redo on another branch) against Stump, Pollard and '
              'full/partial MapPollard (TotalRows 63 and 0) with block proofs taken from the real prover, and records every action and '
              'everything the instances show; TLC (spec/CoreTrace.tla) replays the logged actions on (n, live) and compares every '
              'recorded leaf count, root list, leaf position, proof and update data with spec/Forest.tla; a light client follows every history '
              '(Proof.Update with random remember choices, Proof.Undo) and TLC checks that it holds exactly what it must with the '
              'canonical proof; four partial forests follow as well (two verify every block\'s targets again, two verify only what they do '
              'not remember and prune, ingest and verify-with-remember random sets between blocks) and are dumped after every block: '
              'leaf index exact, every stored hash true, stored positions between StoredLower and StoredUpper; after every block an honest '
              'proof of a random set of leaves is mutated in structured ways (target moved to its sibling, a cousin, another tree, a '
              'non-existent position; duplicated; replaced by or nested with its parent; hashes swapped or replaced by a root hash or '
              'a fresh value; a proof hash altered, zeroed, dropped, inserted or swapped) and given to Verify, Pollard.Verify and '
              'MapPollard.Verify, every acceptance being judged by TLC with ClaimsTrue; every deviating event '
              'is reported and confirmed by running its history alone.')
for _p in ('C01', 'C02', 'C03', 'C06', 'C07', 'C08', 'C09', 'C10', 'C11'):
    PLAN[_p]['stages'] = (lambda f: (lambda tier, seed: f(tier, seed) + [drive(tier)]))(PLAN[_p]['stages'])
    PLAN[_p]['rule'] += DRIVE_RULE
    for _t in ('quick', 'thorough'):
        PLAN[_p]['bounds'][_t] += ('; driver: 24 histories of 24 blocks up to 40 leaves' if _t == 'quick'
                                   else '; driver: 400 histories of 40 blocks up to 64 leaves')


def verifier(name, maxn, claims, proofs, variant='fixed', invs=('SoundOK', 'CompleteOK', 'MinimalOK', 'DelOK'), **kw):
    st = {'kind': 'spec_check', 'name': name, 'module': 'VerifierFun', 'spec': 'Spec',
          'constants': {'MaxN': maxn, 'MaxClaim': claims, 'MaxProof': proofs, 'NJunk': 1, 'Variant': '"%s"' % variant},
          'invariants': list(invs)}
    if variant != 'fixed':
        st['expect_violation'] = True
    st.update(kw)
    return st


_c03 = PLAN['C03']['stages']
PLAN['C03']['stages'] = lambda tier, seed: (
    ([verifier('verifier_model', 4, 2, 2)] if tier == 'quick' else [verifier('verifier_model', 5, 2, 2, timeout=10000),
                                                                    verifier('verifier_model3', 3, 3, 3, timeout=10000)]) +
    [verifier('verifier_neg_' + v, 3, 2, 2, variant=v, invs=('SoundOK',)) for v in ('zero', 'dup', 'nested', 'anyroot')] +
    _c03(tier, seed))
PLAN['C03']['rule'] = ('spec/VerifierFun.tla models the verification algorithm as a function over the free term algebra; TLC checks for '
                       'every state and every input over the adversary\'s alphabet (claims x positions x proofs incl. the zero hash) '
                       'that acceptance implies ClaimsTrue, and finds the violation for each of the four acceptance defects that '
                       'were repaired in the code when it is re-introduced into the model (zero proof hash, duplicated target, '
                       'nested targets, root matched by hash only). Binding to the code: ' + PLAN['C03']['rule'])
_c02 = PLAN['C02']['stages']
PLAN['C02']['stages'] = lambda tier, seed: (
    [verifier('verifier_complete', 7 if tier == 'quick' else 8, 1, 0, invs=('CompleteOK', 'MinimalOK'))] + _c02(tier, seed))
PLAN['C02']['rule'] += (' Spec level: on spec/VerifierFun.tla TLC checks that the canonical proof of every set of live leaves is '
                        'accepted in every request order with all proof hashes used, also with a trailing unused hash, and that '
                        'dropping any one proof hash makes it rejected (minimality).')
_c05 = PLAN['C05']['stages']
PLAN['C05']['stages'] = lambda tier, seed: (
    [verifier('verifier_del', 7 if tier == 'quick' else 8, 1, 0, invs=('DelOK',))] + _c05(tier, seed))
PLAN['C05']['rule'] += (' Spec level: on spec/VerifierFun.tla the roots computed by the deletion walk for an accepted proof of live '
                        'leaves equal Roots(n, live \\ D) in every request order.')


def stumpalg(tier):
    q = tier == 'quick'
    return {'kind': 'spec_check', 'name': 'stumpalg_refines', 'module': 'StumpAlg', 'spec': 'SSpec',
            'constants': {'MaxN': 6 if q else 8, 'MaxAdds': 2 if q else 3, 'MaxClaim': 0, 'MaxProof': 0, 'NJunk': 0, 'Variant': '"fixed"'},
            'invariants': ['RootsRefine', 'UpdateRefine'], 'timeout': 1800 if q else 10800}


for _p in ('C01', 'C11'):
    PLAN[_p]['stages'] = (lambda f: (lambda tier, seed: [stumpalg(tier)] + f(tier, seed)))(PLAN[_p]['stages'])
    PLAN[_p]['rule'] += (' Spec level: spec/StumpAlg.tla keeps the root list incrementally (deleting by walking an honest proof with empty '
                         'hashes, adding leaf by leaf over the trailing one-bits of the count) and TLC checks over all block histories '
                         'in bounds that it equals the history-free Forest!Roots(n, live) - hence independence of batching - and that the '
                         'destroyed roots and recomputed (position, hash) pairs equal UpdateDataRef.')


# C14 wide: larger forests (6..9 leaves, every live set) with small request sets
_c14b = PLAN['C14']['stages']
PLAN['C14']['stages'] = lambda tier, seed: (
    _c14b(tier, seed) +
    ([ops('ops_missing_wide', ['missing'], 8, minn=8, maxreq=2),
      ops('ops_add_wide', ['addproof'], 8, minn=8, maxreq=2)] if tier == 'quick' else
     [ops('ops_missing_wide', ['missing'], 10, minn=8, maxreq=2, timeout=14000),
      ops('ops_add_wide', ['addproof'], 10, minn=8, maxreq=2, timeout=14000),
      ops('ops_subset_wide', ['subset'], 9, minn=8, maxreq=3, timeout=14000)]))
PLAN['C14']['bounds'] = {'quick': PLAN['C14']['bounds']['quick'] + '; wide: every state with 8 leaves, request sets of at most 2 leaves',
                         'thorough': PLAN['C14']['bounds']['thorough'] + '; wide: every state with 8..10 leaves, request sets of at most 2 (3 for restriction) leaves'}


# C01 also over the behaviours of the partial forest (blocks that delete remembered leaves without verifying them again,
# pruning, ingestion, undo, restart from the roots): leaf count and roots after every step
_c01b = PLAN['C01']['stages']
PLAN['C01']['stages'] = lambda tier, seed: (
    _c01b(tier, seed) +
    ([partial('partial_all', ALLP, 4, 2, stack=1, und=1, fr=1, last=True)] if tier == 'quick' else
     [partial('partial_all', ALLP, 5, 3, stack=2, und=2, fr=1),
      partial('partial_last', ALLP, 5, 2, stack=1, und=1, fr=1, last=True)]))
PLAN['C01']['rule'] += (' The roots and the leaf count are also compared after every step of the behaviours of spec/Partial.tla '
                        '(partial MapPollard, TotalRows 0/3/63 and from-roots: blocks deleting remembered leaves directly, Verify with '
                        'remember, Ingest, Prune, Undo), with one witness history per (state, kind of the last action).')


def vloop(name, bounded, maxn=8, **kw):
    st = {'kind': 'spec_check', 'name': name, 'module': 'VerifierLoop', 'spec': 'Spec',
          'constants': {'MaxN': maxn, 'MaxTargets': 2, 'Wrap': 8, 'Bounded': 'TRUE' if bounded else 'FALSE'},
          'invariants': ['TypeOK', 'StepBound'], 'properties': ['Termination']}
    if not bounded:
        st['expect_violation'] = True
    st.update(kw)
    return st


_c04 = PLAN['C04']['stages']
PLAN['C04']['stages'] = lambda tier, seed: (
    [vloop('verifierloop_terminates', True, 8),  # (MaxN = 9 already takes TLC's liveness check beyond ten minutes)
     vloop('verifierloop_lasso_neg', False)] + _c04(tier, seed))
PLAN['C04']['rule'] = ('spec/VerifierLoop.tla models the control skeleton of the hash calculation (queue of positions, wrapping row counter, '
                       'inner row-advance loop) over the untrusted target domain incl. a token for 64-bit values beyond every row; TLC checks '
                       'termination under weak fairness and a polynomial step bound for every input, and exhibits the lasso of the loop '
                       'as originally found (negative demonstration of the repaired defect). Atomic rejection is immediate in '
                       'spec/VerifierFun.tla (the update is a function of an accepted walk). Binding to the code: ' + PLAN['C04']['rule'])


# C02 / C06: every (undone block, next block) pair continued and queried
_c02c = PLAN['C02']['stages']
PLAN['C02']['stages'] = lambda tier, seed: (
    _c02c(tier, seed) +
    [core('core_prove_after_undo', ['mod', 'prove', 'undo'], 4 if tier == 'quick' else 5, 2, stack=1, und=1, undone=True, invariants=False)])
PLAN['C02']['bounds'] = {k: v + '; every (undone block, next block) pair followed by every Prove: n<=%d' % (4 if k == 'quick' else 5)
                         for k, v in PLAN['C02']['bounds'].items()}

_c06c = PLAN['C06']['stages']
PLAN['C06']['stages'] = lambda tier, seed: (
    _c06c(tier, seed) +
    [core('core_undo_tracked', ['mod', 'undo'], 5 if tier == 'quick' else 6, 2, stack=1, und=1, undone=True)])
PLAN['C06']['bounds'] = {k: v + '; every (undone block, next block) pair continued: n<=%d, adds 0..2' % (5 if k == 'quick' else 6)
                         for k, v in PLAN['C06']['bounds'].items()}


def mapalg(tier):
    q = tier == 'quick'
    return {'kind': 'spec_check', 'name': 'mapforestalg_refines', 'module': 'MapForestAlg', 'spec': 'MUSpec',
            'constants': {'MaxN': 8 if q else 10, 'MaxAdds': 4 if q else 5, 'UVariant': '"ok"'}, 'invariants': ['MapRefines'],
            'timeout': 1800 if q else 10800}


def mapalg_neg(tier):
    return {'kind': 'spec_check', 'name': 'mapforestalg_undo_neg', 'module': 'MapForestAlg', 'spec': 'MUSpec',
            'constants': {'MaxN': 6, 'MaxAdds': 3, 'UVariant': '"noempty"'}, 'invariants': ['MapRefines'],
            'expect_violation': True, 'timeout': 600}


for _p in ('C01', 'C10'):
    PLAN[_p]['stages'] = (lambda f: (lambda tier, seed: [mapalg(tier)] + f(tier, seed)))(PLAN[_p]['stages'])
    PLAN[_p]['rule'] += (' Spec level: spec/MapForestAlg.tla keeps a position->hash map with the swapless move-up algorithm (forget below, '
                         'move the sibling subtree up, re-hash; additions climbing over empty roots) and TLC checks over all block '
                         'histories in bounds that it equals the history-free placement Forest!Nodes plus an empty hash at the root of '
                         'every all-dead tree - the position and hash of every node.')


# C12: the lock discipline implies AtomicBlocks for an unbounded number of blocks and queries (Apalache, inductive invariant)
_c12 = PLAN['C12']['stages']
PLAN['C12']['stages'] = lambda tier, seed: (
    [{'kind': 'apalache', 'name': 'maplock_inductive', 'module': 'MapLockInd', 'cinit': 'CInit', 'inv': 'IndInv'},
     {'kind': 'apalache', 'name': 'maplock_inductive_neg', 'module': 'MapLockInd', 'cinit': 'CInitBad', 'inv': 'IndInv', 'expect_violation': True}]
    + _c12(tier, seed))
PLAN['C12']['rule'] = ('spec/MapLockInd.tla restates the lock protocol with type annotations and Apalache discharges an inductive invariant '
                       'that contains AtomicBlocks - for an unbounded number of blocks and queries, 3 readers (and fails to when readers '
                       'ignore the writer: negative demonstration). ' + PLAN['C12']['rule'])


# C05 also from states reached through an undo or a serialization round trip
_c05b = PLAN['C05']['stages']
PLAN['C05']['stages'] = lambda tier, seed: (
    _c05b(tier, seed) +
    [core('core_enc_undo', ['mod', 'enc', 'undo', 'restore'], 4 if tier == 'quick' else 5, 2, stack=1, und=1, rst=1, undone=True,
          invariants=False)])
PLAN['C05']['bounds'] = {k: v + '; every encoding also from states reached through one undo (every undone block) or one serialization round trip: n<=%d, adds 0..2' % (4 if k == 'quick' else 5)
                         for k, v in PLAN['C05']['bounds'].items()}


def drive_big(tier):
    q = tier == 'quick'
    return {'kind': 'drive', 'name': 'drive_big', 'cmd': 'drive', 'trace_module': 'CoreTrace',
            'trace_cfg': {'invariants': ['TraceReport']},
            'x': 'big=1,histories=%d,maxn=%d' % (2 if q else 6, 9000 if q else 12000), 'timeout': 1800 if q else 7200}


BIG_RULE = (' Large forests: a few histories with thousands of leaves (one block of 6000-8000 additions; every fourth leaf of a quarter '
            'deleted, then the rest of those groups - thousands of targets on rows 0 and 1 in shuffled order; a tall subtree thinned '
            'out; a random third deleted; undo; another block) run on Stump, Pollard and full/partial MapPollard. The roots every '
            'instance shows are validated by TLC (spec/CoreTrace.tla); positions of 400 random slots, proofs of 100 random leaves '
            '(pointer forest = map forest, verified), GetProofSubset with 70 wants in shuffled order against the prover, and a '
            'serialization round trip of the partial forest (node by node, flags included) are compared across implementations.')
for _p in ('C01', 'C02', 'C03', 'C05', 'C10', 'C13', 'C14'):
    PLAN[_p]['stages'] = (lambda f: (lambda tier, seed: f(tier, seed) + [drive_big(tier)]))(PLAN[_p]['stages'])
    PLAN[_p]['rule'] += BIG_RULE
    for _t in ('quick', 'thorough'):
        PLAN[_p]['bounds'][_t] += '; large forests: %s' % ('2 histories up to 9000 leaves' if _t == 'quick' else '6 histories up to 12000 leaves')


# --------------------------------------------------------------------------- hash reuse
# A block may delete a leaf and append a leaf carrying the same hash (the leaf is then live again, in a new slot).  The
# harness derives that variant from every pure block history (option reuse=1): one block with deletions and additions is
# picked by the hash of the line, its first addition carries the hash of its first deleted leaf, and every expectation of
# the reference semantics is rewritten accordingly (a substitution of leaf terms).
def _with_reuse(f, names):
    def g(tier, seed):
        out = []
        for st in f(tier, seed):
            if st.get('name') in names and st.get('fam') == 'core':
                st = dict(st)
                st['x'] = (st['x'] + ',' if st.get('x') else '') + 'reuse=1'
            out.append(st)
        return out
    return g


for _p in ('C01', 'C10'):
    PLAN[_p]['stages'] = _with_reuse(PLAN[_p]['stages'], ('core_bfs',))
    PLAN[_p]['rule'] += (' Every pure block history is replayed a second time in its hash-reuse variant: one block appends a leaf that '
                         'carries the hash of a leaf the same block deletes, and the expectations are the reference values under that substitution.')
def relabel(tier, acts, **kw):
    q = tier == 'quick'
    return core('core_relabel', acts, 5 if q else 6, 2, reuse=1, timeout=1800 if q else 10800, **kw)


RELABEL_RULE = (' Stage core_relabel: spec/Core.tla with MaxReuse=1 - leaf and hash are told apart: in one block per behaviour the first '
                'appended leaf may carry the hash of any leaf that block deletes (marks.lab = <<to, from>>, part of the state, lifted '
                'when that block is undone; invariant LabOK: live hashes stay pairwise distinct); every emitted hash term is read '
                'under that substitution and all later blocks, undos and round trips are continued from the relabelled states.')
_c05c = PLAN['C05']['stages']
PLAN['C05']['stages'] = lambda tier, seed: _c05c(tier, seed) + [relabel(tier, ['mod'])]
PLAN['C05']['rule'] += RELABEL_RULE
PLAN['C05']['bounds'] = {k: v + '; relabelled behaviours n<=%d, adds 0..2' % (5 if k == 'quick' else 6) for k, v in PLAN['C05']['bounds'].items()}
_c10c = PLAN['C10']['stages']
PLAN['C10']['stages'] = lambda tier, seed: _c10c(tier, seed) + [relabel(tier, ['mod', 'undo', 'restore'], stack=1, und=1, rst=1)]
PLAN['C10']['rule'] += RELABEL_RULE
PLAN['C10']['bounds'] = {k: v + '; relabelled behaviours n<=%d, adds 0..2, one undo, one round trip' % (5 if k == 'quick' else 6) for k, v in PLAN['C10']['bounds'].items()}
for _p in ('C01', 'C05', 'C10'):
    PLAN[_p]['assumptions'] = list(PLAN[_p]['assumptions']) + [
        'leaves are distinct among the live leaves; a hash may come back in the block that deletes it (hash-reuse variant), never while it is live']


# --------------------------------------------------------------------------- C10: partial forests
# the look-ups of a partial forest after every kind of call, refused blocks included
_c10d = PLAN['C10']['stages']
PLAN['C10']['stages'] = lambda tier, seed: _c10d(tier, seed) + (
    [partial('partial_all', ALLP, 4, 2, stack=1, und=1, fr=1, last=True)] if tier == 'quick' else
    [partial('partial_all', ALLP, 5, 3, stack=2, und=2, fr=1),
     partial('partial_last', ALLP + ['restore'], 4, 2, stack=1, und=1, fr=1, rst=1, last=True)])  # (n<=5 takes hours since the refused calls were added)
PLAN['C10']['rule'] += (' Partial forests (spec/Partial.tla): after every call - blocks, refused blocks (BadModify: a block that names a leaf '
                        'the instance does not remember leaves everything as it was), Verify with remember, Ingest, Prune, Undo, '
                        're-creation from roots, a round trip - every leaf hash ever added is looked up (found exactly when remembered, '
                        'at PosOf), every position is read and CachedLeaves.Length() equals the number of remembered live leaves.')
PLAN['C10']['bounds'] = {'quick': PLAN['C10']['bounds']['quick'] + '; partial forests n<=4, adds 0..2, all call kinds',
                         'thorough': PLAN['C10']['bounds']['thorough'] + '; partial forests n<=5, adds 0..3, undo depth 2 (with a round trip and the last action tracked: n<=4)'}


# --------------------------------------------------------------------------- sparse tall forests
def drive_sparse(tier):
    q = tier == 'quick'
    return {'kind': 'drive', 'name': 'drive_sparse', 'cmd': 'drive', 'trace_module': 'CoreTrace',
            'trace_cfg': {'invariants': ['TraceReport']},
            'x': 'big=2,histories=%d,maxn=16000' % (4 if q else 24), 'timeout': 1800 if q else 10800}


SPARSE_RULE = (' Sparse tall forests (stage drive_sparse): scripted histories on forests of 512-2047 leaves in which a partial forest '
               'remembers a handful of leaves: an aligned block of 2^r leaves (r = 8, 9) is emptied down to one leaf (which moves up r rows), '
               'that leaf is deleted (its tall sibling moves up or the tree empties), additions run over the empty root, an undo and a '
               'further block follow; TLC (spec/CoreTrace.tla) judges the roots of every instance, the positions and the complete stored-node '
               'dump of the partial forests (StoredOK) and proofs of remembered leaves after every step.')
for _p in ('C09', 'C01', 'C10'):
    PLAN[_p]['stages'] = (lambda f: (lambda tier, seed: f(tier, seed) + [drive_sparse(tier)]))(PLAN[_p]['stages'])
    PLAN[_p]['rule'] += SPARSE_RULE


# --------------------------------------------------------------------------- light client on forests of 11-16 leaves
# The exhaustive light-client stages stop at 6-7 leaves.  Additions that are lifted over more than one level of empty
# roots, with held leaves both inside and outside the lifted subtree, need 14 leaves or more (found: Proof.Undo left
# its positions unsorted after moving them back down, fixed in the repository).  Wide configurations of
# spec/LightClient.tla start from every dense state of that size.
def light_wide(tier, acts, name='light_wide'):
    q = tier == 'quick'
    u = 1 if 'undoblock' in acts else 0
    if q:
        return [light(name, acts, 16, 2, stack=1, und=u, minn=14, initdead=0, initheld=2, timeout=1800)]
    # (stack=1 also without undo: in a wide configuration a block is taken from initial states only, recognised by the empty stack)
    return [light(name, acts, 16, 5, stack=1, und=u, minn=11, initdead=0, initheld=2, timeout=7200),
            light(name + '_dead', acts, 16, 3, stack=1, und=u, minn=13, initdead=1, initheld=1, timeout=7200)]


WIDE_LIGHT_RULE = (' Stage light_wide: wide configurations of spec/LightClient.tla - every state with 14-15 (thorough: 11-15) leaves, all live '
                   '(thorough also: one dead), and at most two held leaves is an initial state; from each, every block that deletes at most one '
                   'leaf or the live leaves of one aligned subtree and adds up to %s leaves (at most one remembered)%s.')
_c08w = PLAN['C08']['stages']
PLAN['C08']['stages'] = lambda tier, seed: _c08w(tier, seed) + light_wide(tier, ['block', 'undoblock'])
PLAN['C08']['rule'] += WIDE_LIGHT_RULE % ('2 (thorough: 5)', ', and its undo')
PLAN['C08']['bounds'] = {'quick': PLAN['C08']['bounds']['quick'] + '; wide: n in 14..15, adds 0..2, held<=2',
                         'thorough': PLAN['C08']['bounds']['thorough'] + '; wide: n in 11..15, adds 0..5, held<=2 (and one dead leaf, n in 13..15, held<=1)'}
_c07w = PLAN['C07']['stages']
PLAN['C07']['stages'] = lambda tier, seed: _c07w(tier, seed) + light_wide(tier, ['block'])
PLAN['C07']['rule'] += WIDE_LIGHT_RULE % ('2 (thorough: 5)', '')
PLAN['C07']['bounds'] = {'quick': PLAN['C07']['bounds']['quick'] + '; wide: n in 14..15, adds 0..2, held<=2',
                         'thorough': PLAN['C07']['bounds']['thorough'] + '; wide: n in 11..15, adds 0..5, held<=2 (and one dead leaf, n in 13..15, held<=1)'}


# --------------------------------------------------------------------------- undo with the block's own (non-canonical) proof
# Breadth-first search continues one witness per abstract state, so an Undo only ever followed the first encoding found.
# With TrackEnc the encoding of the last block is part of the state: every accepted encoding of every block is followed
# by its Undo, and the harness undoes a block with the very proof it was applied with.
def encundo(tier):
    q = tier == 'quick'
    return core('core_enc_then_undo', ['mod', 'enc', 'undo'], 3 if q else 4, 2, stack=1, und=1, undone=True, trackenc=True,
                invariants=False, timeout=1800 if q else 10800)


ENCUNDO_RULE = (' Stage core_enc_then_undo: with TrackEnc the encoding of the last block is part of the state, so every accepted encoding '
                '(permuted targets, unused trailing hashes, proofs assembled by AddProof / cut by GetProofSubset) of every block is followed by '
                'Undo, called with the very proof the block was applied with, and by every further block.')
for _p in ('C05', 'C06'):
    PLAN[_p]['stages'] = (lambda f: (lambda tier, seed: f(tier, seed) + [encundo(tier)]))(PLAN[_p]['stages'])
    PLAN[_p]['rule'] += ENCUNDO_RULE


# --------------------------------------------------------------------------- leaf hashes that share a prefix
# Leaf hashes are supplied by the user.  The light-client path (Stump.Update, Proof.Update, Proof.Undo) keys nothing by a
# hash prefix; replaying the light-client behaviours with leaf hashes that all start with the same 12 bytes catches code
# that starts to (the pointer forest does, by design, and does not take part).
def light_prefix(tier, acts):
    q = tier == 'quick'
    u = 1 if 'undoblock' in acts else 0
    return light('light_prefix', acts, 5 if q else 6, 3, stack=u, und=u, x='prefix=1')


PREFIX_RULE = (' Stage light_prefix: the same behaviours with leaf hashes that share their first 12 bytes (symbolic hashing option '
               'prefix=1; the expectations are unchanged: distinct leaves stay distinct 32-byte values).')
for _p, _acts in (('C07', ['block']), ('C08', ['block', 'undoblock'])):
    PLAN[_p]['stages'] = (lambda f, a: (lambda tier, seed: f(tier, seed) + [light_prefix(tier, a)]))(PLAN[_p]['stages'], _acts)
    PLAN[_p]['rule'] += PREFIX_RULE


# --------------------------------------------------------------------------- C06: the undo algorithm of the map forest at spec level
PLAN['C06']['stages'] = (lambda f: (lambda tier, seed: [mapalg(tier), mapalg_neg(tier)] + f(tier, seed)))(PLAN['C06']['stages'])
PLAN['C06']['rule'] += (' Spec level: spec/MapForestAlg.tla also models Undo as the map forest does it (additions taken back newest first: '
                        'created parents removed, a subtree that had moved up over an empty root moved back down and the empty root put '
                        'back; deletions taken back in the reverse order of their removal: the sibling subtree moved back down, the deleted '
                        'subtree rebuilt from the deleted leaf hashes, ancestors re-hashed) and TLC checks that after Undo the map is again '
                        'the one Forest!Nodes prescribes for the state before the block, for every block of every reachable state; the '
                        'variant that does not put the empty root back is refuted (negative demonstration).')


# --------------------------------------------------------------------------- a small wide undo configuration in the quick tier
# (two additions of one block each writing over an empty root needs 11 -> 16 leaves: seeded changes C06-3 and C09-1
# were only caught by the thorough tier)
def undo_wide_quick():
    return core('core_undo_wide', ['mod', 'undo'], 16, 5, stack=1, und=1, minn=11, initlive=2, invariants=False,
                x='only=undo,rows=0;3;63', timeout=1800)


_c06q = PLAN['C06']['stages']
PLAN['C06']['stages'] = lambda tier, seed: _c06q(tier, seed) + ([undo_wide_quick()] if tier == 'quick' else [])
PLAN['C06']['bounds']['quick'] += '; wide: every state with 11 leaves of which at most 2 live, one block (adds 0..5) and its undo'


# --------------------------------------------------------------------------- lifted replay: the same behaviours at 2^31 .. 2^62 leaves
def lift(tier):
    q = tier == 'quick'
    st = core('lift_bfs', ['mod'], 8 if q else 10, 3 if q else 4, invariants=False, timeout=1800 if q else 10800)
    st['fam'] = 'lift'
    return st


def liftlemma(tier):
    return {'kind': 'spec_check', 'name': 'lift_lemma', 'module': 'Lift', 'spec': 'Spec',
            'constants': {'S': 3, 'MaxM': 5 if tier == 'quick' else 9}, 'invariants': ['LiftOK'], 'timeout': 1800}


LIFT_RULE = (' Lifted replay (stages lift_lemma, lift_bfs): the reference semantics is invariant under putting a forest on top of full high '
             'trees - a forest of M*2^s + n leaves (n < 2^s) has below the trees of M exactly the forest of n leaves, every node at '
             '(row, idx + M*2^(s-row)), roots = high roots followed by the small roots (geometry checked by TLC on spec/Lift.tla for small M). '
             'Every block history TLC generates for small forests is replayed on a roots-only verifier and a partial map forest created from '
             'the bare (opaque) roots of high trees holding 2^31, 2^32, 2^40 and 2^62 leaves, with shifted targets; roots, update data, '
             'positions and single-leaf proofs must be the shifted expectations.')
for _p in ('C01', 'C11', 'C10', 'C02'):
    PLAN[_p]['stages'] = (lambda f: (lambda tier, seed: f(tier, seed) + [liftlemma(tier), lift(tier)]))(PLAN[_p]['stages'])
    PLAN[_p]['rule'] += LIFT_RULE


def lift_light(tier, acts):
    q = tier == 'quick'
    u = 1 if 'undoblock' in acts else 0
    st = light('lift_light', acts, 5 if q else 6, 3, stack=u, und=u)
    st['fam'] = 'lift'
    return st


LIFT_LIGHT_RULE = (' Stage lift_light: the light-client behaviours replayed on lifted forests (see the lifting lemma spec/Lift.tla): the '
                   'verifier state starts as the bare roots of trees holding 2^31 .. 2^62 leaves and every position received, held and '
                   'returned is a shifted one.')
for _p, _acts in (('C07', ['block']), ('C08', ['block', 'undoblock'])):
    PLAN[_p]['stages'] = (lambda f, a: (lambda tier, seed: f(tier, seed) + [lift_light(tier, a)]))(PLAN[_p]['stages'], _acts)
    PLAN[_p]['rule'] += LIFT_LIGHT_RULE


# --------------------------------------------------------------------------- C02: provability of what a partial forest remembers
_c02p = PLAN['C02']['stages']
PLAN['C02']['stages'] = lambda tier, seed: _c02p(tier, seed) + (
    [partial('partial_all', ALLP, 4, 2, stack=1, und=1, fr=1, last=True)] if tier == 'quick' else
    [partial('partial_all', ALLP, 5, 3, stack=2, und=2, fr=1)])
PLAN['C02']['rule'] += (' Partial forests (spec/Partial.tla, all call kinds incl. refused blocks): after every call the instance must prove '
                        'everything it remembers - all together (exact canonical proof) and each leaf alone (verified) - and a proof handed '
                        'out earlier must not change during later calls.')
PLAN['C02']['bounds'] = {'quick': PLAN['C02']['bounds']['quick'] + '; partial forests n<=4, all call kinds',
                         'thorough': PLAN['C02']['bounds']['thorough'] + '; partial forests n<=5, undo depth 2'}


# --------------------------------------------------------------------------- C14 on lifted forests
def lift_ops(tier):
    q = tier == 'quick'
    out = []
    for nm, act in (('lift_ops_add', 'addproof'), ('lift_ops_subset', 'subset'), ('lift_ops_missing', 'missing')):
        st = ops(nm, [act], 4 if q else 6)
        st['fam'] = 'lift'
        out.append(st)
    return out


PLAN['C14']['stages'] = (lambda f: (lambda tier, seed: f(tier, seed) + lift_ops(tier)))(PLAN['C14']['stages'])
PLAN['C14']['rule'] += (' Stages lift_ops_*: the same operations on lifted forests (spec/Lift.tla): the proofs live below high trees of '
                        '2^31 .. 2^62 leaves, every position is a shifted one, the leaf count passed to the operations is the big one.')


def lift_undo(tier):
    q = tier == 'quick'
    st = core('lift_undo', ['mod', 'undo'], 6 if q else 7, 3, stack=1, und=1, invariants=False, timeout=1800 if q else 10800)
    st['fam'] = 'lift'
    return st


PLAN['C06']['stages'] = (lambda f: (lambda tier, seed: f(tier, seed) + [lift_undo(tier)]))(PLAN['C06']['stages'])
PLAN['C06']['rule'] += (' Stage lift_undo: block/undo behaviours replayed on lifted forests (spec/Lift.tla): a partial map forest created from '
                        'the bare roots of trees holding 2^31 .. 2^62 leaves applies and undoes the blocks with shifted targets; roots, '
                        'positions and proofs must be the shifted expectations.')


# --------------------------------------------------------------------------- light client from every state with 7 leaves (any live set)
def light_sparse(tier, acts):
    u = 1 if 'undoblock' in acts else 0
    q = tier == 'quick'
    return light('light_wide7', acts, 8 if q else 9, 2, stack=1, und=u, minn=7, initdead=9, initheld=2, timeout=1800 if q else 10800)


for _p, _acts in (('C07', ['block']), ('C08', ['block', 'undoblock'])):
    PLAN[_p]['stages'] = (lambda f, a: (lambda tier, seed: f(tier, seed) + [light_sparse(tier, a)]))(PLAN[_p]['stages'], _acts)
    PLAN[_p]['rule'] += (' Stage light_wide7: wide configuration with every state of 7 (thorough: 7-8) leaves - any live set, at most two held '
                         'leaves - as initial state (several empty roots at once, which the dense wide configuration does not have).')


# --------------------------------------------------------------------------- refused calls leave no lock behind (C12); effect schedules also under C03
_c12r = PLAN['C12']['stages']
PLAN['C12']['stages'] = lambda tier, seed: _c12r(tier, seed) + [
    partial('partial_refused', ['mod', 'vrem', 'prune', 'undo', 'badmod', 'badvrem', 'badundo'], 3 if tier == 'quick' else 4, 2, stack=1, und=1)]
PLAN['C12']['rule'] += (' Stage partial_refused: after every refused call of spec/Partial.tla (a block naming a leaf that is not remembered, a '
                        'remembering verification with a replaced hash, an Undo whose proof lacks its hashes) a reader and a writer must still be '
                        'served (no lock left behind on an error path).')
_c03e = PLAN['C03']['stages']
PLAN['C03']['stages'] = lambda tier, seed: _c03e(tier, seed) + [
    partial('lock_effect', ['mod', 'vrem', 'ingest', 'prune', 'undo'], 3 if tier == 'quick' else 4, 2, stack=1, und=1, fam='lockrun',
            x='effectonly=1', harness_workers=2, timeout=1800 if tier == 'quick' else 10800)]
PLAN['C03']['rule'] += (' Stage lock_effect: remembering verifications with a real effect race with every writer operation of spec/Partial.tla in '
                        'both orders (suspended through the hook points); results and final forest must be those of one of the two sequential '
                        'orders - a verification whose check and store are not one atomic step leaves hashes verified against another state.')


# --------------------------------------------------------------------------- C10: forests created from bare roots that are asked to remember old leaves
PLAN['C10']['stages'] = (lambda f: (lambda tier, seed: f(tier, seed) + [ops('ops_missing', ['missing'], 5 if tier == 'quick' else 7)]))(PLAN['C10']['stages'])
PLAN['C10']['rule'] += (' Stage ops_missing (spec/ProofOps.tla): map forests created from the bare roots of every state - full and non-full - are asked '
                        'to remember leaves that are older than they are (Ingest, Verify with remember); they must then track them at their true '
                        'positions.')


PLAN['C06']['stages'] = (lambda f: (lambda tier, seed: f(tier, seed) + [drive_sparse(tier)]))(PLAN['C06']['stages'])
PLAN['C06']['rule'] += SPARSE_RULE + (' The moves of tall subtrees are undone and applied again; every fourth history uses a subtree 12 rows tall '
                                      '(4096 leaves), where TLC judges the roots and the partial forests are compared with the full ones.')


# --------------------------------------------------------------------------- light client whose proof went through a restriction
def light_restrict(tier):
    q = tier == 'quick'
    return light('light_restrict', ['block', 'undoblock', 'restrict'], 4 if q else 5, 2, stack=1, und=1, timeout=1800 if q else 10800)


for _p in ('C08', 'C14'):
    PLAN[_p]['stages'] = (lambda f: (lambda tier, seed: f(tier, seed) + [light_restrict(tier)]))(PLAN[_p]['stages'])
    PLAN[_p]['rule'] += (' Stage light_restrict: spec/LightClient.tla with the action RestrictProof - the client cuts its cached proof down to some '
                         'of its leaves in any request order (GetProofSubset keeps the order of the request, which is part of the state until the next '
                         'block or undo) - followed by further blocks and by Undo.')


# --------------------------------------------------------------------------- leaf hashes with almost all bytes zero
# Leaf hashes are the caller's values.  The symbolic hashing option sparse=1 gives every leaf a value that is zero except
# for one byte among bytes 16..23 (what an emptiness test, a prefix or a suffix comparison could get wrong); the pointer
# forest keys its index by the first 12 bytes and does not take part.
def sparse_hashes(tier):
    q = tier == 'quick'
    return core('core_prove_sparsehash', ['mod', 'prove'], 5 if q else 6, 2, x='sparse=1')


for _p in ('C01', 'C02'):
    PLAN[_p]['stages'] = (lambda f: (lambda tier, seed: f(tier, seed) + [sparse_hashes(tier)]))(PLAN[_p]['stages'])
    PLAN[_p]['rule'] += (' Stage core_prove_sparsehash: blocks and proofs with leaf values that are zero except for one byte among bytes 16..23 '
                         '(symbolic hashing option sparse=1; Stump and map forests).')


# --------------------------------------------------------------------------- mid-size random histories with a light client that holds many leaves
def drive_mid(tier):
    q = tier == 'quick'
    return {'kind': 'drive', 'name': 'drive_mid', 'cmd': 'drive', 'trace_module': 'CoreTrace',
            'trace_cfg': {'invariants': ['TraceReport']},
            'x': 'big=3,histories=%d,maxn=400' % (8 if q else 60), 'timeout': 1800 if q else 10800}


for _p in ('C07', 'C08'):
    PLAN[_p]['stages'] = (lambda f: (lambda tier, seed: f(tier, seed) + [drive_mid(tier)]))(PLAN[_p]['stages'])
    PLAN[_p]['rule'] += (' Stage drive_mid: scripted histories on forests of 70-250 leaves (one big tree and several low trees) in which the light client '
                         'remembers two additions out of three (cached proofs with dozens of targets): leaves of the big tree go, all leaves of the low trees '
                         'go while one or two additions run over the chain of emptied roots, Undo, the same deletions with other additions, a random block, '
                         'Undo; TLC (CoreTrace) judges the roots, the positions and what the client holds after every step.')


# --------------------------------------------------------------------------- roots with prefix-sharing leaf values, pointer forest included
def prefix_roots(tier):
    q = tier == 'quick'
    st = core('prefix_roots', ['mod'], 8 if q else 9, 3 if q else 4, invariants=False)
    st['fam'] = 'prefixroots'
    return st


for _p in ('C01', 'C05'):
    PLAN[_p]['stages'] = (lambda f: (lambda tier, seed: f(tier, seed) + [prefix_roots(tier)]))(PLAN[_p]['stages'])
    PLAN[_p]['rule'] += (' Stage prefix_roots: every block history with leaf values that share their first 12 bytes, applied to Stump, Pollard and a '
                         'full map forest; leaf count and roots only (the pointer forest keys its leaf index by those bytes - look-ups by hash are '
                         'ambiguous there by design - but the roots of a block must not depend on that index).')


# --------------------------------------------------------------------------- C07: very large blocks; leaf values whose words cancel out
_c07b = PLAN['C07']['stages']
PLAN['C07']['stages'] = lambda tier, seed: _c07b(tier, seed) + [
    light('light_bigblock', ['block', 'undoblock'], 5, 3, stack=1, und=1, x='big=40,lightbig=1' if tier == 'quick' else 'big=10,lightbig=1'),
    light('light_xorzero', ['block'], 5 if tier == 'quick' else 6, 3, x='xorzero=1')]
PLAN['C07']['rule'] += (' Stage light_bigblock: a sample of the blocks is applied once more with 65 536 additional leaves (the forest grows by many '
                        'rows in one block): the cached proof must verify against the new state and equal the proof of a full prover. Stage '
                        'light_xorzero: the same behaviours with leaf values whose four 64-bit words cancel out (a|a|b|b).')
PLAN['C08']['stages'] = (lambda f: (lambda tier, seed: f(tier, seed) + [light('light_xorzero', ['block', 'undoblock'], 5, 3, stack=1, und=1, x='xorzero=1')]))(PLAN['C08']['stages'])
PLAN['C08']['rule'] += ' Stage light_xorzero: the same behaviours with leaf values whose four 64-bit words cancel out (a|a|b|b).'


# --------------------------------------------------------------------------- the pointer forest (nieces, aunts) at spec level
def pollardalg(tier):
    q = tier == 'quick'
    return {'kind': 'spec_check', 'name': 'pollardalg_refines', 'module': 'PollardAlg', 'spec': 'PUSpec',
            'constants': {'MaxN': 6 if q else 7, 'MaxAdds': 3, 'PVariant': '"ok"'}, 'invariants': ['PollardRefines', 'AuntOK'],
            'timeout': 1800 if q else 10800}


def pollardalg_neg(tier):
    return {'kind': 'spec_check', 'name': 'pollardalg_neg', 'module': 'PollardAlg', 'spec': 'PUSpec',
            'constants': {'MaxN': 8, 'MaxAdds': 3, 'PVariant': '"nochildren"'}, 'invariants': ['PollardRefines', 'AuntOK'],
            'expect_violation': True, 'timeout': 600}


for _p in ('C01', 'C10'):
    PLAN[_p]['stages'] = (lambda f: (lambda tier, seed: [pollardalg(tier), pollardalg_neg(tier)] + f(tier, seed)))(PLAN[_p]['stages'])
    PLAN[_p]['rule'] += (' Spec level: spec/PollardAlg.tla transcribes the pointer forest (every node holds its aunt and its nieces - the children of '
                         'its sibling; additions swap nieces and drop empty roots; a deletion moves the sibling up by transferring aunt and nieces, '
                         'hands the children of the moving node to its new sibling and re-hashes) and TLC checks over all block histories that walking '
                         'nieces from the roots finds Forest!NodeAt at every position and that every aunt pointer is right; the variant that does '
                         'not hand the children over is refuted.')


def pollardalg_undo_neg(tier):
    return {'kind': 'spec_check', 'name': 'pollardalg_undo_neg', 'module': 'PollardAlg', 'spec': 'PUSpec',
            'constants': {'MaxN': 6, 'MaxAdds': 3, 'PVariant': '"noempties"'}, 'invariants': ['PollardRefines', 'AuntOK'],
            'expect_violation': True, 'timeout': 600}


PLAN['C06']['stages'] = (lambda f: (lambda tier, seed: [pollardalg(tier), pollardalg_undo_neg(tier)] + f(tier, seed)))(PLAN['C06']['stages'])
PLAN['C06']['rule'] += (' spec/PollardAlg.tla transcribes the Undo of the pointer forest (lowest roots split again, empty roots put back from the previous '
                        'root list, a node per deleted leaf, twins joined, nodes put back from the highest position down) and TLC checks that after every '
                        'block and its undo walking nieces from the roots again finds Forest!NodeAt of the previous state and all aunt pointers are right; '
                        'the variant that does not put the empty roots back is refuted.')


# --------------------------------------------------------------------------- C05 on partial forests (incl. a caller that reuses its buffers)
_c05p = PLAN['C05']['stages']
PLAN['C05']['stages'] = lambda tier, seed: _c05p(tier, seed) + (
    [partial('partial_all', ALLP, 4, 2, stack=1, und=1, fr=1, last=True)] if tier == 'quick' else
    [partial('partial_all', ALLP, 5, 3, stack=2, und=2, fr=1)])
PLAN['C05']['rule'] += (' Partial forests (spec/Partial.tla): every block applied after any interleaving of remembering verifications, ingestions, '
                        'prunes, refused calls and undos must give the reference roots - also on an instance whose caller decodes every message into '
                        'the same buffers (the arguments of consecutive calls share their backing arrays).')


# --------------------------------------------------------------------------- partial forests of 16 leaves (wide configuration)
def partial_wide(tier):
    q = tier == 'quick'
    return partial('partial_wide', ['mod', 'undo'], 17, 0 if q else 1, stack=1, und=1, minn=16 if q else 15, wideextra=0 if q else 1, timeout=1800 if q else 10800)


for _p in ('C06', 'C09'):
    PLAN[_p]['stages'] = (lambda f: (lambda tier, seed: f(tier, seed) + [partial_wide(tier)]))(PLAN[_p]['stages'])
    PLAN[_p]['rule'] += (' Stage partial_wide: wide configuration of spec/Partial.tla - every all-live forest of 16 (thorough: 15-16) leaves in which the '
                         'instance remembers a run of consecutive leaves plus at most one more is an initial state; from each, every block that deletes '
                         'one remembered leaf or the remembered leaves of one aligned subtree, and its undo (subtrees of four and more leaves collapsing '
                         'next to remembered leaves, which 5-leaf forests do not have).')


# --------------------------------------------------------------------------- C15: the cache algorithm at specification level
def schedalg(name, tier, variant='ok', **kw):
    q = tier == 'quick'
    st = {'kind': 'spec_check', 'name': name, 'module': 'ScheduleAlg', 'spec': 'ASpec', 'view': 'AView',
          'constants': {'MaxN': 6 if q else 8, 'MaxAdds': 3, 'MaxBlocks': 4, 'SVariant': '"%s"' % variant},
          'invariants': ['CacheBound', 'CacheTrue', 'SoFarOK', 'FinalOK', 'Useful'], 'timeout': 1800 if q else 10800}
    st.update(kw)
    return st


PLAN['C15']['stages'] = (lambda f: (lambda tier, seed: [
    schedalg('schedalg_refines', tier),
    schedalg('schedalg_ge', tier, 'ge', constants={'MaxN': 5, 'MaxAdds': 3, 'MaxBlocks': 4, 'SVariant': '"ge"'}),
    schedalg('schedalg_room_neg', tier, 'le', constants={'MaxN': 5, 'MaxAdds': 3, 'MaxBlocks': 3, 'SVariant': '"le"'}, expect_violation=True, timeout=600),
    schedalg('schedalg_height_neg', tier, 'noage', constants={'MaxN': 4, 'MaxAdds': 2, 'MaxBlocks': 4, 'SVariant': '"noage"'}, expect_violation=True, timeout=600),
] + f(tier, seed)))(PLAN['C15']['stages'])
PLAN['C15']['rule'] += (' Spec level: spec/ScheduleAlg.tla models the forward pass of GenerateCachingSchedule (a bounded cache of (slot, time to live) '
                        'pairs: ageing at the start of a block, a pair whose time is up is filed under the block that created it, a new pair takes free '
                        'room or replaces the first cached pair with a strictly greater time to live) over every recorded history in bounds, every '
                        'memory limit and every order in which a block offers its pairs; TLC checks that the cache never exceeds the limit, that cached '
                        'times are the true distances to the spending block, that the finished schedule satisfies SchedOK and is not empty when something '
                        'could be kept; the variants with the room test off by one and with the creation block of a replaced pair kept are refuted, the '
                        'variant replacing on equal times passes.')


# --------------------------------------------------------------------------- C14: missing positions of wide partial forests
def partial_missq_wide(tier):
    q = tier == 'quick'
    return partial('partial_missq_wide', ['missq'], 13 if q else 17, 0, minn=8, wideextra=1, timeout=1800 if q else 10800)


PLAN['C14']['stages'] = (lambda f: (lambda tier, seed: f(tier, seed) + [partial_missq_wide(tier)]))(PLAN['C14']['stages'])
PLAN['C14']['rule'] += (' Stage partial_missq_wide: wide configuration of spec/Partial.tla - every all-live forest of 8-12 (thorough: 8-16) leaves in which '
                        'the instance remembers a run of consecutive leaves plus at most one more is asked for the missing positions of every request of '
                        'one or two leaves (a needed position whose two children are stored while it is not; several missing positions in one request, '
                        'which forests of 5 leaves with one remembered leaf do not have).')


# --------------------------------------------------------------------------- C17: what a restriction returned survives later updates
PLAN['C17']['stages'] = (lambda f: (lambda tier, seed: f(tier, seed) + [light_restrict(tier)]))(PLAN['C17']['stages'])
PLAN['C17']['rule'] += (' Stage light_restrict: the hashes and the proof GetProofSubset returned to a light client (targets in request order: the '
                        'caller\'s own wants) are retained and compared again after every later Proof.Update, Proof.Undo and verification.')
