package main

// Geometry family (spec/GeometryBits.tla, property C16): every transition of
// the specification's cursor machine is one test of an exported position
// function.  Positions arrive as (row, digit string of the offset); the
// numeric value is computed here with the closed formula of the property
// text (rowStart), never with a function of the code under test.

import (
	"encoding/json"
	"fmt"
	"sort"

	"github.com/utreexo/utreexo"
)

type gCur struct {
	Row  int   `json:"row"`
	Bits []int `json:"bits"`
}

type gLine struct {
	Op       string          `json:"op"`
	R        int             `json:"R"`
	At       gCur            `json:"at"`
	K        int             `json:"k"`
	R2       int             `json:"r2"`
	Exp      json.RawMessage `json:"exp"`
	Nb       []int           `json:"nb"`
	TreeRows int             `json:"treerows"`
	Tree     int             `json:"tree"`
	Branch   int             `json:"branch"`
	Path     []int           `json:"path"`
	Niece    []int           `json:"niece"`
	Root     gCur            `json:"root"`
	Proof    []gCur          `json:"proof"`
	N        uint64          `json:"n"`
	Targets  []JPos          `json:"targets"`
	Comp     []JPos          `json:"comp"`
}

func bitsVal(b []int) uint64 {
	var v uint64
	for _, d := range b {
		v = v<<1 | uint64(d&1)
	}
	return v
}

func (c gCur) ri() RI            { return RI{uint8(c.Row), bitsVal(c.Bits)} }
func (c gCur) pos(R int) uint64  { return enc(c.ri(), uint8(R)) }
func (c gCur) String() string    { return fmt.Sprintf("[row %d, offset %d]", c.Row, bitsVal(c.Bits)) }

func init() {
	families["geom"] = func(r *Runner, l *Line) lineResult { return r.replayGeom(l) }
}

func (r *Runner) replayGeom(l *Line) lineResult {
	var g gLine
	if err := json.Unmarshal(l.G, &g); err != nil {
		return lineResult{skipped: "bad geom line: " + err.Error()}
	}
	w := NewWorld(r.sy, WorldCfg{})
	res := lineResult{nontrivial: true}
	fail := func(cat, what string, exp, got any) {
		w.fail([]string{"C16"}, nil, cat, what, exp, got)
	}
	R := uint8(g.R)
	calls := 0
	// large target sets, once per run (in the re-execution of a stored case: always)
	if r.one {
		calls += geomBig(fail)
	} else {
		geomBigOnce.Do(func() { calls += geomBig(fail) })
	}
	pan := protect(func() {
		switch g.Op {
		case "up", "left", "right", "upmany", "downmany", "retarget", "detect":
			pos := g.At.pos(g.R)
			var ex gCur
			var exRow int
			if g.Op == "detect" {
				json.Unmarshal(g.Exp, &exRow)
			} else if err := json.Unmarshal(g.Exp, &ex); err != nil {
				panic("bad exp: " + err.Error())
			}
			switch g.Op {
			case "up":
				calls++
				if got, want := utreexo.Parent(pos, R), ex.pos(g.R); got != want {
					fail("geom.parent", fmt.Sprintf("Parent(%d, %d) of %v", pos, R, g.At), want, got)
				}
			case "left":
				calls += 2
				want := ex.pos(g.R)
				if got := utreexo.LeftChild(pos, R); got != want {
					fail("geom.leftchild", fmt.Sprintf("LeftChild(%d, %d) of %v", pos, R, g.At), want, got)
				}
				// inverse law on the code itself
				if back := utreexo.Parent(utreexo.LeftChild(pos, R), R); back != pos {
					fail("geom.inverse", fmt.Sprintf("Parent(LeftChild(%d, %d))", pos, R), pos, back)
				}
			case "right":
				calls += 2
				want := ex.pos(g.R)
				if got := utreexo.RightChild(pos, R); got != want {
					fail("geom.rightchild", fmt.Sprintf("RightChild(%d, %d) of %v", pos, R, g.At), want, got)
				}
				if back := utreexo.Parent(utreexo.RightChild(pos, R), R); back != pos {
					fail("geom.inverse", fmt.Sprintf("Parent(RightChild(%d, %d))", pos, R), pos, back)
				}
			case "upmany":
				calls++
				got, err := utreexo.ParentMany(pos, uint8(g.K), R)
				if err != nil {
					fail("geom.parentmany", fmt.Sprintf("ParentMany(%d, %d, %d) failed: %v", pos, g.K, R, err), nil, nil)
				} else if want := ex.pos(g.R); got != want {
					fail("geom.parentmany", fmt.Sprintf("ParentMany(%d, %d, %d) of %v", pos, g.K, R, g.At), want, got)
				}
			case "downmany":
				calls += 2
				got, err := utreexo.ChildMany(pos, uint8(g.K), R)
				if err != nil {
					fail("geom.childmany", fmt.Sprintf("ChildMany(%d, %d, %d) failed: %v", pos, g.K, R, err), nil, nil)
				} else if want := ex.pos(g.R); got != want {
					fail("geom.childmany", fmt.Sprintf("ChildMany(%d, %d, %d) of %v", pos, g.K, R, g.At), want, got)
				} else if back, err := utreexo.ParentMany(got, uint8(g.K), R); err != nil || back != pos {
					fail("geom.inverse", fmt.Sprintf("ParentMany(ChildMany(%d, %d, %d))", pos, g.K, R), pos, back)
				}
			case "retarget":
				calls += 2
				want := ex.pos(g.R2)
				got := utreexo.VerifTranslatePos(pos, R, uint8(g.R2))
				if got != want {
					fail("geom.translate", fmt.Sprintf("translatePos(%d, %d, %d) of %v", pos, R, g.R2, g.At), want, got)
				} else if back := utreexo.VerifTranslatePos(got, uint8(g.R2), R); back != pos {
					fail("geom.inverse", fmt.Sprintf("translatePos back (%d, %d, %d)", got, g.R2, R), pos, back)
				}
				if dr := utreexo.DetectRow(got, uint8(g.R2)); int(dr) != g.At.Row {
					fail("geom.detectrow", fmt.Sprintf("DetectRow(%d, %d) after translation", got, g.R2), g.At.Row, dr)
				}
			case "detect":
				calls++
				if got := utreexo.DetectRow(pos, R); int(got) != exRow {
					fail("geom.detectrow", fmt.Sprintf("DetectRow(%d, %d)", pos, R), exRow, got)
				}
			}
		case "roots":
			n := bitsVal(g.Nb)
			var ex []gCur
			json.Unmarshal(g.Exp, &ex)
			want := make([]uint64, len(ex))
			for i, c := range ex {
				want[i] = c.pos(g.R)
			}
			calls += 2
			got := utreexo.RootPositions(n, R)
			if !eqU64s(got, want) {
				fail("geom.rootpositions", fmt.Sprintf("RootPositions(%d, %d)", n, R), want, got)
			} else {
				// the returned slice belongs to the caller: what the caller does with it
				// must not show in the answer to the same question asked again
				for i := range got {
					got[i] = ^uint64(0) - uint64(i)
				}
				if again := utreexo.RootPositions(n, R); !eqU64s(again, want) {
					fail("geom.rootpositions", fmt.Sprintf("RootPositions(%d, %d) asked again after the caller overwrote the slice returned the first time", n, R), want, again)
				}
			}
			if tr := utreexo.TreeRows(n); int(tr) != g.TreeRows {
				fail("geom.treerows", fmt.Sprintf("TreeRows(%d)", n), g.TreeRows, tr)
			}
		case "offset":
			n := bitsVal(g.Nb)
			pos := g.At.pos(g.R)
			calls += 2
			tree, branch, bf, err := utreexo.DetectOffset(pos, n)
			if r.one && err == nil && int(tree) == g.Tree && int(branch) == g.Branch {
				// re-execution of a stored case: in the run, other workers were asking the same pure
				// function about other forests at the same time; do that here as well
				stop := make(chan struct{})
				go func() {
					for i := uint64(0); ; i++ {
						select {
						case <-stop:
							return
						default:
						}
						utreexo.DetectOffset(i%5, 65536+i%100000)
						utreexo.DetectOffset(i%7, 1<<40+i)
						utreexo.DetectOffset(0, 3+i%60)
					}
				}()
				for k := 0; k < 400000; k++ {
					t2, b2, f2, e2 := utreexo.DetectOffset(pos, n)
					if e2 != nil || int(t2) != g.Tree || int(b2) != g.Branch || f2 != bf {
						tree, branch, bf, err = t2, b2, f2, e2
						break
					}
				}
				close(stop)
			}
			if err != nil {
				fail("geom.detectoffset", fmt.Sprintf("DetectOffset(%d, %d) failed: %v", pos, n, err), nil, nil)
				break
			}
			if int(tree) != g.Tree || int(branch) != g.Branch {
				fail("geom.detectoffset", fmt.Sprintf("DetectOffset(%d, %d) tree/branch", pos, n), []int{g.Tree, g.Branch}, []int{int(tree), int(branch)})
				break
			}
			// documented use of the bit field: descend from the root, at each
			// step take the niece selected by the bit (a node holds its
			// sibling's children, a root its own)
			sib := g.Root.ri()
			cur := sib
			for h := g.Branch - 1; h >= 0; h-- {
				b := (bf >> uint(h)) & 1
				cur = RI{sib.Row - 1, sib.Idx<<1 | b}
				sib = RI{sib.Row - 1, sib.Idx<<1 | (b ^ 1)}
			}
			if cur != g.At.ri() {
				fail("geom.detectoffset", fmt.Sprintf("DetectOffset(%d, %d): descending by the returned bits", pos, n), g.At.ri().String(), cur.String())
			}
			for i, d := range g.Niece {
				h := g.Branch - 1 - i
				if int((bf>>uint(h))&1) != d {
					fail("geom.detectoffset", fmt.Sprintf("DetectOffset(%d, %d) bit %d", pos, n, h), d, (bf>>uint(h))&1)
					break
				}
			}
			// the proof positions of this single target
			want := make([]uint64, len(g.Proof))
			for i, c := range g.Proof {
				want[i] = c.pos(g.R)
			}
			pp, comp := utreexo.ProofPositions([]uint64{pos}, n, R)
			if !eqU64s(pp, want) {
				fail("geom.proofpositions", fmt.Sprintf("ProofPositions([%d], %d, %d)", pos, n, R), want, pp)
			}
			if len(comp) != g.Branch {
				fail("geom.proofpositions", fmt.Sprintf("ProofPositions([%d], %d, %d): number of computable positions", pos, n, R), g.Branch, len(comp))
			}
		case "proofpos":
			Rn := treeRows(g.N)
			for _, RR := range []uint8{Rn, Rn + 1, Rn + 3, 31, 32, 62, 63} {
				if RR < Rn {
					continue
				}
				tg := make([]uint64, len(g.Targets))
				for i, t := range g.Targets {
					tg[i] = enc(t.RI(), RR)
				}
				sort.Slice(tg, func(a, b int) bool { return tg[a] < tg[b] })
				var ex []JPos
				json.Unmarshal(g.Exp, &ex)
				want := make([]uint64, len(ex))
				for i, t := range ex {
					want[i] = enc(t.RI(), RR)
				}
				wantC := map[uint64]bool{}
				for _, t := range g.Comp {
					wantC[enc(t.RI(), RR)] = true
				}
				snap := append([]uint64{}, tg...)
				calls++
				pp, comp := utreexo.ProofPositions(tg, g.N, RR)
				if len(pp)+len(comp) > 0 {
					// same for the slices this call returns
					p0, c0 := append([]uint64{}, pp...), append([]uint64{}, comp...)
					for i := range pp {
						pp[i] = ^uint64(0) - uint64(i)
					}
					for i := range comp {
						comp[i] = ^uint64(0) - uint64(i)
					}
					pp2, comp2 := utreexo.ProofPositions(append([]uint64{}, snap...), g.N, RR)
					if !eqU64s(pp2, p0) || !eqU64s(comp2, c0) {
						fail("geom.proofpositions", fmt.Sprintf("ProofPositions(%v, %d, %d) asked again after the caller overwrote the slices returned the first time", snap, g.N, RR), []any{p0, c0}, []any{pp2, comp2})
					}
					pp, comp = p0, c0
				}
				if !eqU64s(tg, snap) {
					fail("geom.proofpositions", fmt.Sprintf("ProofPositions(%v, %d, %d) modified its argument", snap, g.N, RR), snap, tg)
				}
				if !eqU64s(pp, want) {
					fail("geom.proofpositions", fmt.Sprintf("ProofPositions(%v, %d, %d) proof positions", snap, g.N, RR), want, pp)
				}
				gotC := map[uint64]bool{}
				for _, c := range comp {
					gotC[c] = true
				}
				same := len(gotC) == len(wantC)
				for c := range gotC {
					if !wantC[c] {
						same = false
					}
				}
				if !same {
					fail("geom.proofpositions", fmt.Sprintf("ProofPositions(%v, %d, %d) computable positions", snap, g.N, RR), g.Comp, comp)
				}
			}
		default:
			panic("unknown geom op " + g.Op)
		}
	})
	if pan != "" {
		fail("panic", "geometry function panicked on "+g.Op+": "+pan, nil, nil)
	}
	res.fails = w.fails
	res.calls = calls
	res.extra = map[string]int{"op." + g.Op: 1}
	if g.R >= 32 {
		res.extra["rows>=32"] = 1
	}
	res.samples = nil
	return res
}
