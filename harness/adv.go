package main

// Adversarial inputs to the verifiers (spec/Adversary.tla): C03 (soundness)
// and C04 (totality, atomic rejection).  The specification emits, per abstract
// state, the input domain and the node table; the product is formed here
// against the real verifiers.

import (
	"encoding/json"
	"fmt"
	"os"
	"strconv"
	"strings"
	"sync"
	"sync/atomic"
	"time"

	"github.com/utreexo/utreexo"
)

func init() {
	families["adv"] = func(r *Runner, l *Line) lineResult { return r.replayAdv(l) }
	replayers["adv"] = replayAdvOne
}

// AdvCase is one adversarial call, in specification terms.
type AdvCase struct {
	Mode  string   `json:"mode"`
	API   string   `json:"api"`
	Hs    []string `json:"hs"`
	Tg    []string `json:"tg"` // decimal numbers (uint64)
	Pf    []string `json:"pf"`
	Adds  int      `json:"adds,omitempty"`
	AddsPat string `json:"addspat,omitempty"` // additions with chosen values: z = all-zero hash, a/b/c = fresh values
	Stump *struct {
		N     string   `json:"n"`
		Roots []string `json:"roots"`
	} `json:"stump,omitempty"`
}

type advInsts struct {
	stump    utreexo.Stump
	pollard  *utreexo.Pollard
	full63   *utreexo.MapPollard
	full0    *utreexo.MapPollard
	fromroot *utreexo.MapPollard
	// the same state reached through a detour: a block is applied, something
	// is verified in the state after it, and the block is undone (twice: an
	// adds-only block and a deletion-only block)
	pollardU *utreexo.Pollard
	full63U  *utreexo.MapPollard
	// instances that are asked to remember what they verify (remember=true):
	// an accepted call changes what they store, never what is true
	full63R   *utreexo.MapPollard
	fromrootR *utreexo.MapPollard
	// allocated for one row more than the forest needs: numbers just beyond the
	// geometry of the forest are positions of the allocation
	fullR1 *utreexo.MapPollard
	// a partial forest that, before the deletions of the construction history, was asked to remember
	// (by verification) every internal node and root of the forest with its then true hash: what it
	// remembers of them must not make it accept those hashes once they are no longer true
	remInt *utreexo.MapPollard
}

var advAPIs = []string{"Verify", "Pollard.Verify", "MapPollard.Verify/63", "MapPollard.Verify/0",
	"MapPollard.VerifyPartialProof/full", "MapPollard.VerifyPartialProof/fromroots",
	"Pollard.Verify@after-undo", "MapPollard.Verify/63@after-undo",
	"MapPollard.Verify/63+remember", "MapPollard.Verify/fromroots+remember", "MapPollard.VerifyPartialProof/fromroots+remember",
	"MapPollard.Verify/rows+1", "MapPollard.VerifyPartialProof/rows+1",
	"MapPollard.Verify/remembered-nodes", "MapPollard.VerifyPartialProof/remembered-nodes"}

// buildAdv constructs real instances in the abstract state of the line: add n
// leaves, then delete the dead ones with the specification's canonical proof.
func buildAdv(sy *Symb, st *Step, exp *Expect) (*advInsts, error) {
	a := &advInsts{}
	a.stump = utreexo.Stump{Roots: sy.Hs(exp.Roots), NumLeaves: exp.N}
	leaves := make([]utreexo.Leaf, st.K)
	for i := range leaves {
		leaves[i] = utreexo.Leaf{Hash: sy.H(leafTerm(i))}
	}
	R := treeRows(uint64(st.K))
	dels := make([]Hash, len(st.D))
	for i, s := range st.D {
		dels[i] = sy.H(leafTerm(s))
	}
	tg := make([]uint64, len(st.Pf.T))
	for i, t := range st.Pf.T {
		tg[i] = enc(t.RI(), R)
	}
	proof := utreexo.Proof{Targets: tg, Proof: sy.Hs(st.Pf.P)}
	mk := func(acc utreexo.Utreexo) error {
		if err := acc.Modify(leaves, nil, utreexo.Proof{}); err != nil {
			return err
		}
		if len(dels) > 0 {
			if err := acc.Modify(nil, dels, proof); err != nil {
				return err
			}
		}
		got := sy.Ts(acc.GetRoots())
		if !eqStrs(got, exp.Roots) {
			return fmt.Errorf("state construction gives roots %v, want %v", got, exp.Roots)
		}
		return nil
	}
	p := utreexo.NewAccumulator()
	a.pollard = &p
	if err := mk(a.pollard); err != nil {
		return nil, err
	}
	a.full63 = newMap(true, 63)
	if err := mk(a.full63); err != nil {
		return nil, err
	}
	a.full0 = newMap(true, 0)
	if err := mk(a.full0); err != nil {
		return nil, err
	}
	fr := utreexo.NewMapPollardFromRoots(sy.Hs(exp.Roots), exp.N, false)
	a.fromroot = &fr
	a.full63R = newMap(true, 63)
	if err := mk(a.full63R); err != nil {
		return nil, err
	}
	a.fullR1 = newMap(true, treeRows(uint64(st.K))+1)
	if err := mk(a.fullR1); err != nil {
		return nil, err
	}
	frr := utreexo.NewMapPollardFromRoots(sy.Hs(exp.Roots), exp.N, false)
	a.fromrootR = &frr
	// detour instances
	detour := func(acc utreexo.Utreexo) error {
		if err := mk(acc); err != nil {
			return err
		}
		prev := sy.Hs(exp.Roots)
		j1, j2 := sy.H(junkTerm(1)), sy.H(junkTerm(2))
		if err := acc.Modify([]utreexo.Leaf{{Hash: j1}, {Hash: j2}}, nil, utreexo.Proof{}); err != nil {
			return err
		}
		if pr, err := acc.Prove([]Hash{j1}); err == nil {
			acc.Verify([]Hash{j1}, pr, false)
		}
		if err := acc.Undo(2, utreexo.Proof{}, nil, prev); err != nil {
			return err
		}
		if len(st.Live) > 0 {
			h := sy.H(leafTerm(st.Live[0]))
			pr, err := acc.Prove([]Hash{h})
			if err != nil {
				return err
			}
			if err := acc.Modify(nil, []Hash{h}, pr); err != nil {
				return err
			}
			if len(st.Live) > 1 {
				h2 := sy.H(leafTerm(st.Live[len(st.Live)-1]))
				if pr2, err := acc.Prove([]Hash{h2}); err == nil {
					acc.Verify([]Hash{h2}, pr2, false)
				}
			}
			if err := acc.Undo(0, pr, []Hash{h}, prev); err != nil {
				return err
			}
		}
		if got := sy.Ts(acc.GetRoots()); !eqStrs(got, exp.Roots) {
			return fmt.Errorf("detour gives roots %v, want %v", got, exp.Roots)
		}
		return nil
	}
	// the instance that remembered internal nodes before the deletions
	if ri := buildRemInt(sy, st, leaves, dels, proof); ri != nil {
		if got := sy.Ts(ri.GetRoots()); eqStrs(got, exp.Roots) {
			a.remInt = ri
		}
	}
	pu := utreexo.NewAccumulator()
	if err := detour(&pu); err == nil {
		a.pollardU = &pu
	}
	mu := newMap(true, 63)
	if err := detour(mu); err == nil {
		a.full63U = mu
	}
	return a, nil
}

// buildRemInt: K leaves, a remembering verification of every node above the bottom row (true hash,
// canonical proof), then the deletions of the construction history.
func buildRemInt(sy *Symb, st *Step, leaves []utreexo.Leaf, dels []Hash, proof utreexo.Proof) *utreexo.MapPollard {
	K := uint64(st.K)
	if K == 0 {
		return nil
	}
	m := newMap(false, 63)
	lv := make([]utreexo.Leaf, len(leaves))
	for i := range lv {
		lv[i] = utreexo.Leaf{Hash: leaves[i].Hash, Remember: true}
	}
	ok := true
	pan := protect(func() {
		if m.Modify(lv, nil, utreexo.Proof{}) != nil {
			ok = false
			return
		}
		R := treeRows(K)
		var term func(r uint8, i uint64) string
		term = func(r uint8, i uint64) string {
			if r == 0 {
				return leafTerm(int(i))
			}
			return "(" + term(r-1, 2*i) + "," + term(r-1, 2*i+1) + ")"
		}
		isRoot := func(p RI) bool { return K>>p.Row&1 == 1 && p.Idx == (K>>(p.Row+1))<<1 }
		for r := uint8(1); r <= R; r++ {
			for i := uint64(0); (i+1)<<r <= K; i++ {
				p := RI{r, i}
				var pf []Hash
				for q := p; !isRoot(q); q = (RI{q.Row + 1, q.Idx / 2}) {
					pf = append(pf, sy.H(term(q.Row, q.Idx^1)))
				}
				// (a refusal is no concern of this construction: the instance is then simply a partial forest)
				m.Verify([]Hash{sy.H(term(r, i))}, utreexo.Proof{Targets: []uint64{enc(p, R)}, Proof: pf}, true)
			}
		}
		if len(dels) > 0 {
			if m.Verify(dels, proof, true) != nil || m.Modify(nil, dels, proof) != nil {
				ok = false
			}
		}
	})
	if pan != "" || !ok {
		return nil
	}
	return m
}

// call runs one API on one input; accepted reports a nil error.
func (a *advInsts) call(api int, hs []Hash, tg []uint64, pf []Hash) (accepted bool) {
	proof := utreexo.Proof{Targets: tg, Proof: pf}
	var err error
	switch api {
	case 0:
		_, err = utreexo.Verify(a.stump, hs, proof)
	case 1:
		err = a.pollard.Verify(hs, proof, false)
	case 2:
		err = a.full63.Verify(hs, proof, false)
	case 3:
		err = a.full0.Verify(hs, proof, false)
	case 4:
		err = a.full63.VerifyPartialProof(tg, hs, pf, false)
	case 5:
		err = a.fromroot.VerifyPartialProof(tg, hs, pf, false)
	case 6:
		if a.pollardU == nil {
			return false
		}
		err = a.pollardU.Verify(hs, proof, false)
	case 7:
		if a.full63U == nil {
			return false
		}
		err = a.full63U.Verify(hs, proof, false)
	case 8:
		err = a.full63R.Verify(hs, proof, true)
	case 9:
		err = a.fromrootR.Verify(hs, proof, true)
	case 10:
		err = a.fromrootR.VerifyPartialProof(tg, hs, pf, true)
	case 11:
		err = a.fullR1.Verify(hs, proof, false)
	case 12:
		err = a.fullR1.VerifyPartialProof(tg, hs, pf, false)
	case 13:
		if a.remInt == nil {
			return false
		}
		err = a.remInt.Verify(hs, proof, false)
	case 14:
		if a.remInt == nil {
			return false
		}
		err = a.remInt.VerifyPartialProof(tg, hs, pf, false)
	}
	return err == nil
}

// ---------------------------------------------------------------------------
// watchdog: a call that does not return within the budget is a hang
// ---------------------------------------------------------------------------

type slot struct {
	start atomic.Int64 // unix nanos, 0 = idle
	desc  atomic.Pointer[AdvCase]
}

type watchdog struct {
	slots  []*slot
	budget time.Duration
	onHang func(c *AdvCase)
	stop   chan struct{}
}

func newWatchdog(n int, budget time.Duration, onHang func(c *AdvCase)) *watchdog {
	w := &watchdog{budget: budget, onHang: onHang, stop: make(chan struct{})}
	for i := 0; i < n; i++ {
		w.slots = append(w.slots, &slot{})
	}
	go func() {
		t := time.NewTicker(100 * time.Millisecond)
		defer t.Stop()
		for {
			select {
			case <-w.stop:
				return
			case <-t.C:
				now := time.Now().UnixNano()
				for _, s := range w.slots {
					st := s.start.Load()
					if st != 0 && time.Duration(now-st) > w.budget {
						w.onHang(s.desc.Load())
					}
				}
			}
		}
	}()
	return w
}

func termsOf(sy *Symb, hs []Hash) []string { return sy.Ts(hs) }

func numsOf(tg []uint64) []string {
	out := make([]string, len(tg))
	for i, t := range tg {
		out[i] = strconv.FormatUint(t, 10)
	}
	return out
}

func optVal(extra, key, def string) string {
	for _, kv := range strings.Split(extra, ",") {
		if strings.HasPrefix(kv, key+"=") {
			return kv[len(key)+1:]
		}
	}
	return def
}

var advTrace struct {
	mu sync.Mutex
	f  *os.File
	n  int
}

func (r *Runner) advTraceLine(v any) {
	path := optVal(r.extra, "trace", "")
	if path == "" {
		return
	}
	advTrace.mu.Lock()
	defer advTrace.mu.Unlock()
	if advTrace.f == nil {
		f, err := os.Create(path)
		if err != nil {
			return
		}
		advTrace.f = f
	}
	max, _ := strconv.Atoi(optVal(r.extra, "maxtrace", "20000"))
	if advTrace.n >= max {
		return
	}
	advTrace.n++
	b, _ := json.Marshal(v)
	advTrace.f.Write(append(b, '\n'))
}

func (r *Runner) replayAdv(l *Line) lineResult {
	r.internLine(l)
	mode := optVal(r.extra, "mode", "c03")
	if mode == "c04" {
		return r.advTotality(l)
	}
	return r.advSoundness(l)
}

// ---------------------------------------------------------------------------
// C03: exhaustive product over the specification's domain
// ---------------------------------------------------------------------------

func (r *Runner) advSoundness(l *Line) lineResult {
	st, exp := &l.Step, &l.Expect
	res := lineResult{insts: len(advAPIs), nontrivial: true, extra: map[string]int{}}
	R := treeRows(exp.N)
	nodeAt := map[uint64]string{}
	for _, nd := range exp.Nodes {
		nodeAt[enc(nd.RI(), R)] = nd.Hash
	}
	// targets: every position of the geometry and the numbers just beyond it
	var targets []uint64
	for _, p := range st.Positions {
		targets = append(targets, enc(p.RI(), R))
	}
	top := (uint64(1) << (uint(R) + 1)) - 1
	targets = append(targets, top, top+1, top+2)
	claimH := r.sy.Hs(st.Alphabet)
	proofH := append(append([]Hash{}, claimH...), zeroHash)
	maxClaim, maxProof := st.MaxClaim, st.MaxProof

	// all proofs up to maxProof
	var proofs [][]Hash
	var gen func(cur []Hash)
	gen = func(cur []Hash) {
		proofs = append(proofs, append([]Hash{}, cur...))
		if len(cur) == maxProof {
			return
		}
		for _, h := range proofH {
			gen(append(cur, h))
		}
	}
	gen(nil)

	type claim struct {
		h Hash
		t uint64
	}
	var singles []claim
	for _, h := range claimH {
		for _, t := range targets {
			singles = append(singles, claim{h, t})
		}
	}
	claimsTrue := func(cs []claim) bool {
		for _, c := range cs {
			if c.h == zeroHash || nodeAt[c.t] != r.sy.T(c.h) {
				return false
			}
		}
		return true
	}

	nw := 8
	var mu sync.Mutex
	var wg sync.WaitGroup
	var calls, accepts atomic.Int64
	hang := func(c *AdvCase) {
		mu.Lock()
		f := Fail{Props: []string{"C04"}, Inst: c.API, Cat: "hang", What: "call did not return within the budget", Case: c}
		fmt.Printf("##VIOL %s\n", mustJSON(map[string]any{"property": "C04", "replay": r.writeReplay("C04", &f, l), "fail": f}))
		fmt.Printf("##HANG\n")
		os.Exit(3)
	}
	wd := newWatchdog(nw, 60*time.Second, hang)
	for wi := 0; wi < nw; wi++ {
		wg.Add(1)
		go func(wi int) {
			defer wg.Done()
			a, err := buildAdv(r.sy, st, exp)
			if err != nil {
				mu.Lock()
				res.skipped = "cannot build state: " + err.Error()
				mu.Unlock()
				return
			}
			if wi == 0 && (a.pollardU == nil || a.full63U == nil) {
				mu.Lock()
				res.extra["detour_failed"]++
				mu.Unlock()
			}
			sl := wd.slots[wi]
			run := func(cs []claim) {
				hs := make([]Hash, len(cs))
				tg := make([]uint64, len(cs))
				for i, c := range cs {
					hs[i], tg[i] = c.h, c.t
				}
				truth := claimsTrue(cs)
				for _, pf := range proofs {
					for api := range advAPIs {
						sl.desc.Store(&AdvCase{Mode: "c03", API: advAPIs[api], Hs: termsOf(r.sy, hs), Tg: numsOf(tg), Pf: termsOf(r.sy, pf)})
						sl.start.Store(time.Now().UnixNano())
						var ok bool
						pan := protect(func() { ok = a.call(api, hs, tg, pf) })
						sl.start.Store(0)
						calls.Add(1)
						if pan != "" {
							mu.Lock()
							res.fails = append(res.fails, Fail{Props: []string{"C04"}, Inst: advAPIs[api], Cat: "panic",
								What: "verifier panicked: " + pan, Case: sl.desc.Load()})
							mu.Unlock()
							continue
						}
						if !ok {
							if calls.Load()%1000003 == 7 {
								mu.Lock()
								res.samples = append(res.samples, map[string]any{"state": map[string]any{"n": exp.N, "live": st.Live}, "verdict": "reject", "case": sl.desc.Load()})
								mu.Unlock()
							}
							continue
						}
						if accepts.Add(1)%5003 == 11 {
							mu.Lock()
							res.samples = append(res.samples, map[string]any{"state": map[string]any{"n": exp.N, "live": st.Live}, "verdict": "accept", "case": sl.desc.Load()})
							mu.Unlock()
						}
						tgj := make([][2]int64, len(tg))
						for i, t := range tg {
							if ri, ok := dec(t, R); ok {
								tgj[i] = [2]int64{int64(ri.Row), int64(ri.Idx)}
							} else {
								tgj[i] = [2]int64{-1, 0}
							}
						}
						r.advTraceLine(map[string]any{"ev": "accept", "api": advAPIs[api], "n": exp.N, "live": st.Live,
							"hs": termsOf(r.sy, hs), "tg": tgj})
						if !truth {
							mu.Lock()
							res.fails = append(res.fails, Fail{Props: []string{"C03"}, Inst: advAPIs[api], Cat: "unsound",
								What: "a false claim was accepted", Exp: "reject", Got: "accept", Case: sl.desc.Load()})
							mu.Unlock()
						}
					}
				}
			}
			// hashes that WERE true before the deletions of the construction history (every node of the
			// all-live forest), claimed at the position they had
			if wi == 2%nw && st.K > 0 {
				K := uint64(st.K)
				R0 := treeRows(K)
				var term func(r uint8, i uint64) string
				term = func(r uint8, i uint64) string {
					if r == 0 {
						return leafTerm(int(i))
					}
					return "(" + term(r-1, 2*i) + "," + term(r-1, 2*i+1) + ")"
				}
				for r0 := uint8(0); r0 <= R0; r0++ {
					for i := uint64(0); (i+1)<<r0 <= K; i++ {
						if ri, ok := dec(enc(RI{r0, i}, R0), R0); ok {
							run([]claim{{r.sy.H(term(r0, i)), enc(ri, R)}})
						}
					}
				}
			}
			// claimed hashes that are zero except for one byte, at every position (single claims)
			for bi, b := range []int{0, 7, 8, 11, 12, 15, 16, 20, 23, 24, 31} {
				if bi%nw != wi {
					continue
				}
				h := r.sy.H(fmt.Sprintf("B%d", b))
				for _, t := range targets {
					run([]claim{{h, t}})
				}
			}
			for i := wi; i < len(singles); i += nw {
				run([]claim{singles[i]})
				if maxClaim >= 2 {
					for j := range singles {
						run([]claim{singles[i], singles[j]})
						if maxClaim >= 3 {
							for k := range singles {
								run([]claim{singles[i], singles[j], singles[k]})
							}
						}
					}
				}
			}
		}(wi)
	}
	wg.Wait()
	close(wd.stop)
	res.calls = int(calls.Load())
	res.extra["accepted"] = int(accepts.Load())
	res.extra["cases"] = int(calls.Load())
	// a case whose verdict carries information about soundness: an acceptance
	res.extra["nontrivial_cases"] = int(accepts.Load())
	// keep the report small: first failure per (api, category)
	res.fails = dedupFails(res.fails)
	return res
}

func dedupFails(fs []Fail) []Fail {
	seen := map[string]bool{}
	var out []Fail
	for _, f := range fs {
		k := f.Inst + "/" + f.Cat
		if !seen[k] {
			seen[k] = true
			out = append(out, f)
		}
	}
	return out
}

// ---------------------------------------------------------------------------
// C04: malformed input, big numbers, mismatched lengths, huge stumps
// ---------------------------------------------------------------------------

func (r *Runner) advTotality(l *Line) lineResult {
	st, exp := &l.Step, &l.Expect
	res := lineResult{insts: len(advAPIs) + 1, nontrivial: true, extra: map[string]int{}}
	R := treeRows(exp.N)
	var targets []uint64
	for _, p := range st.Positions {
		targets = append(targets, enc(p.RI(), R))
	}
	top := (uint64(1) << (uint(R) + 1)) - 1
	targets = append(targets, top, top+1, top+2, 1<<32, 1<<63, ^uint64(0), ^uint64(0)-1, 1<<62+3)
	claimH := append(r.sy.Hs(st.Alphabet), zeroHash)
	// a small proof alphabet: a true node hash, a fresh value, zero
	proofH := []Hash{r.sy.H(junkTerm(1)), zeroHash}
	if len(exp.Nodes) > 0 {
		proofH = append(proofH, r.sy.H(exp.Nodes[0].Hash), r.sy.H(exp.Nodes[len(exp.Nodes)-1].Hash))
	}
	var proofs [][]Hash
	proofs = append(proofs, nil)
	for _, a := range proofH {
		proofs = append(proofs, []Hash{a})
		for _, b := range proofH {
			proofs = append(proofs, []Hash{a, b})
		}
	}
	big := make([]Hash, 40)
	for i := range big {
		big[i] = r.sy.H(junkTerm(200 + i))
	}
	proofs = append(proofs, big)

	type input struct {
		hs []Hash
		tg []uint64
	}
	var inputs []input
	inputs = append(inputs, input{nil, nil})
	for _, t := range targets {
		inputs = append(inputs, input{nil, []uint64{t}})                                  // more targets than hashes
		inputs = append(inputs, input{[]Hash{claimH[0], claimH[len(claimH)-1]}, []uint64{t}}) // more hashes than targets
		for _, h := range claimH {
			inputs = append(inputs, input{[]Hash{h}, []uint64{t}})
		}
	}
	// pairs: duplicates, nested, mixed with huge numbers (hashes from a reduced alphabet)
	redH := claimH
	if len(redH) > 4 {
		redH = []Hash{claimH[0], claimH[len(claimH)/2], claimH[len(claimH)-2], zeroHash}
	}
	for _, t1 := range targets {
		for _, t2 := range targets {
			for _, h1 := range redH {
				inputs = append(inputs, input{[]Hash{h1, redH[0]}, []uint64{t1, t2}})
			}
		}
	}

	nw := 8
	var mu sync.Mutex
	var wg sync.WaitGroup
	var calls, rejectedUpdates atomic.Int64
	budget := 60 * time.Second
	hang := func(c *AdvCase) {
		mu.Lock()
		f := Fail{Props: []string{"C04"}, Inst: c.API, Cat: "hang", What: fmt.Sprintf("call did not return within %v", budget), Case: c}
		fmt.Printf("##VIOL %s\n", mustJSON(map[string]any{"property": "C04", "replay": r.writeReplay("C04", &f, l), "fail": f}))
		fmt.Printf("##HANG\n")
		os.Exit(3)
	}
	wd := newWatchdog(nw, budget, hang)
	for wi := 0; wi < nw; wi++ {
		wg.Add(1)
		go func(wi int) {
			defer wg.Done()
			a, err := buildAdv(r.sy, st, exp)
			if err != nil {
				mu.Lock()
				res.skipped = "cannot build state: " + err.Error()
				mu.Unlock()
				return
			}
			sl := wd.slots[wi]
			addOne := []Hash{r.sy.H(leafTerm(int(exp.N)))}
			for i := wi; i < len(inputs); i += nw {
				in := inputs[i]
				for _, pf := range proofs {
					for api := 0; api <= len(advAPIs); api++ {
						name := "Stump.Update"
						if api < len(advAPIs) {
							name = advAPIs[api]
						}
						c := &AdvCase{Mode: "c04", API: name, Hs: termsOf(r.sy, in.hs), Tg: numsOf(in.tg), Pf: termsOf(r.sy, pf)}
						sl.desc.Store(c)
						sl.start.Store(time.Now().UnixNano())
						var pan string
						if api < len(advAPIs) {
							pan = protect(func() { a.call(api, in.hs, in.tg, pf) })
						} else {
							c.Adds = 1
							s := utreexo.Stump{Roots: append([]Hash{}, a.stump.Roots...), NumLeaves: a.stump.NumLeaves}
							var uerr error
							pan = protect(func() { _, uerr = s.Update(in.hs, addOne, utreexo.Proof{Targets: in.tg, Proof: pf}) })
							if pan == "" && uerr != nil {
								rejectedUpdates.Add(1)
								same := s.NumLeaves == a.stump.NumLeaves && len(s.Roots) == len(a.stump.Roots)
								for k := 0; same && k < len(s.Roots); k++ {
									same = s.Roots[k] == a.stump.Roots[k]
								}
								if !same {
									mu.Lock()
									res.fails = append(res.fails, Fail{Props: []string{"C04"}, Inst: name, Cat: "nonatomic",
										What: "a rejected Stump.Update changed the stump", Exp: r.sy.Ts(a.stump.Roots), Got: r.sy.Ts(s.Roots), Case: c})
									mu.Unlock()
								}
							}
						}
						sl.start.Store(0)
						if calls.Add(1)%200003 == 5 {
							mu.Lock()
							res.samples = append(res.samples, map[string]any{"state": map[string]any{"n": exp.N, "live": st.Live}, "case": c})
							mu.Unlock()
						}
						if pan != "" {
							mu.Lock()
							res.fails = append(res.fails, Fail{Props: []string{"C04"}, Inst: name, Cat: "panic", What: "panicked: " + pan, Case: c})
							mu.Unlock()
						}
					}
				}
			}
			// the additions are caller-supplied hashes too: the all-zero hash and repeated values among
			// them, with and without a true deletion
			if wi == 1%nw {
				type delv struct {
					hs []Hash
					tg []uint64
					pf []Hash
				}
				dv := []delv{{}}
				if len(exp.Leaves) > 0 {
					// the true claim of the first live leaf with its canonical proof (from the node table)
					nodeAt := map[RI]string{}
					for _, nd := range exp.Nodes {
						nodeAt[nd.RI()] = nd.Hash
					}
					lf := exp.Leaves[0]
					p := RI{uint8(lf[1]), lf[2]}
					isRoot := func(q RI) bool { return exp.N>>q.Row&1 == 1 && q.Idx == (exp.N>>(q.Row+1))<<1 }
					var pfT []string
					for q := p; !isRoot(q); q = (RI{q.Row + 1, q.Idx / 2}) {
						pfT = append(pfT, nodeAt[RI{q.Row, q.Idx ^ 1}])
					}
					dv = append(dv, delv{[]Hash{r.sy.H(leafTerm(int(lf[0])))}, []uint64{enc(p, R)}, r.sy.Hs(pfT)})
				}
				for _, d := range dv {
					for _, pat := range addPatterns {
						adds := addsOfPattern(r.sy, pat)
						c := &AdvCase{Mode: "c04", API: "Stump.Update", Hs: termsOf(r.sy, d.hs), Tg: numsOf(d.tg), Pf: termsOf(r.sy, d.pf), AddsPat: pat}
						sl.desc.Store(c)
						sl.start.Store(time.Now().UnixNano())
						s := utreexo.Stump{Roots: append([]Hash{}, a.stump.Roots...), NumLeaves: a.stump.NumLeaves}
						var uerr error
						pan := protect(func() { _, uerr = s.Update(d.hs, adds, utreexo.Proof{Targets: d.tg, Proof: d.pf}) })
						sl.start.Store(0)
						calls.Add(1)
						if pan != "" {
							mu.Lock()
							res.fails = append(res.fails, Fail{Props: []string{"C04"}, Inst: "Stump.Update", Cat: "panic", What: "panicked: " + pan, Case: c})
							mu.Unlock()
						} else if uerr != nil {
							same := s.NumLeaves == a.stump.NumLeaves && len(s.Roots) == len(a.stump.Roots)
							for k := 0; same && k < len(s.Roots); k++ {
								same = s.Roots[k] == a.stump.Roots[k]
							}
							if !same {
								mu.Lock()
								res.fails = append(res.fails, Fail{Props: []string{"C04"}, Inst: "Stump.Update", Cat: "nonatomic",
									What: "a rejected Stump.Update changed the stump", Exp: r.sy.Ts(a.stump.Roots), Got: r.sy.Ts(s.Roots), Case: c})
								mu.Unlock()
							}
						}
					}
				}
			}
			// synthetic well-formed stumps with huge leaf counts (roots are fresh values)
			if wi == 0 {
				for _, nl := range []uint64{1<<31 + 5, 1<<62 + 3, 1 << 63, ^uint64(0), 1<<40 + 1<<20 + 1, 1<<63 + 1, 1<<63 + 1<<40 + 1, ^uint64(0) - 2} {
					pop := 0
					for x := nl; x != 0; x &= x - 1 {
						pop++
					}
					roots := make([]Hash, pop)
					for i := range roots {
						roots[i] = r.sy.H(junkTerm(300 + i))
					}
					for _, t := range []uint64{0, 1, nl - 1, nl, nl + 1, 1 << 32, 1 << 63, ^uint64(0), ^uint64(0) - 1, nl / 2, nl | 1} {
						for _, pf := range proofs {
							for _, hs := range [][]Hash{{claimH[0]}, {zeroHash}, nil, {claimH[0], claimH[0]}, {roots[len(roots)-1]}, {roots[0]}} {
								for u := 0; u < 4; u++ {
									// u: 0 Verify; 1-3 Stump.Update with 0, 1, 3 additions (3 wrap the leaf count near 2^64)
									name := "Verify/hugestump"
									var adds []Hash
									if u >= 1 {
										name = "Stump.Update/hugestump"
										for j := 0; j < []int{0, 0, 1, 3}[u]; j++ {
											adds = append(adds, r.sy.H(junkTerm(400+j)))
										}
									}
									c := &AdvCase{Mode: "c04", API: name, Hs: termsOf(r.sy, hs), Tg: numsOf([]uint64{t}), Pf: termsOf(r.sy, pf), Adds: len(adds)}
									c.Stump = &struct {
										N     string   `json:"n"`
										Roots []string `json:"roots"`
									}{strconv.FormatUint(nl, 10), r.sy.Ts(roots)}
									sl.desc.Store(c)
									sl.start.Store(time.Now().UnixNano())
									s := utreexo.Stump{Roots: append([]Hash{}, roots...), NumLeaves: nl}
									var uerr error
									pan := protect(func() {
										if u == 0 {
											_, uerr = utreexo.Verify(s, hs, utreexo.Proof{Targets: []uint64{t}, Proof: pf})
										} else {
											_, uerr = s.Update(hs, adds, utreexo.Proof{Targets: []uint64{t}, Proof: pf})
										}
									})
									sl.start.Store(0)
									calls.Add(1)
									if pan != "" {
										mu.Lock()
										res.fails = append(res.fails, Fail{Props: []string{"C04"}, Inst: name, Cat: "panic", What: "panicked: " + pan, Case: c})
										mu.Unlock()
									} else if u >= 1 && uerr != nil {
										same := s.NumLeaves == nl && len(s.Roots) == len(roots)
										for k := 0; same && k < len(roots); k++ {
											same = s.Roots[k] == roots[k]
										}
										if !same {
											mu.Lock()
											res.fails = append(res.fails, Fail{Props: []string{"C04"}, Inst: name, Cat: "nonatomic",
												What: "a rejected Stump.Update changed the stump", Case: c})
											mu.Unlock()
										}
									}
								}
							}
						}
					}
				}
			}
		}(wi)
	}
	wg.Wait()
	close(wd.stop)
	res.calls = int(calls.Load())
	res.extra["rejected_updates_checked"] = int(rejectedUpdates.Load())
	res.extra["cases"] = int(calls.Load())
	// every call is a distinct (state, entry point, malformed input) triple
	res.extra["nontrivial_cases"] = int(calls.Load())
	res.fails = dedupFails(res.fails)
	return res
}

// addsOfPattern: the additions a pattern stands for (z = the all-zero hash, other letters fresh values;
// a repeated letter is a repeated value).
func addsOfPattern(sy *Symb, pat string) []Hash {
	var out []Hash
	for _, ch := range pat {
		if ch == 'z' {
			out = append(out, zeroHash)
		} else {
			out = append(out, sy.H(junkTerm(600+int(ch))))
		}
	}
	return out
}

var addPatterns = []string{"z", "za", "zab", "azb", "abz", "zzab", "aa", "aab", "zazb"}

// replayAdvOne re-executes one stored adversarial case under a watchdog.
func replayAdvOne(cfg Config, v *Violation) int {
	r := NewRunner(cfg)
	l, _, err := parseTLCLine(string(v.Line))
	if err != nil || v.Fail.Case == nil {
		fmt.Fprintln(os.Stderr, "ERROR bad replay file", err)
		return 2
	}
	r.internLine(l)
	c := v.Fail.Case
	hs := r.sy.Hs(c.Hs)
	pf := r.sy.Hs(c.Pf)
	tg := make([]uint64, len(c.Tg))
	for i, s := range c.Tg {
		tg[i], _ = strconv.ParseUint(s, 10, 64)
	}
	done := make(chan string, 1)
	go func() {
		var out string
		pan := protect(func() {
			if c.Stump != nil {
				nl, _ := strconv.ParseUint(c.Stump.N, 10, 64)
				s := utreexo.Stump{Roots: r.sy.Hs(c.Stump.Roots), NumLeaves: nl}
				before := append([]Hash{}, s.Roots...)
				var e error
				if strings.HasPrefix(c.API, "Verify") {
					_, e = utreexo.Verify(s, hs, utreexo.Proof{Targets: tg, Proof: pf})
				} else {
					var adds []Hash
					for j := 0; j < c.Adds; j++ {
						adds = append(adds, r.sy.H(junkTerm(400+j)))
					}
					_, e = s.Update(hs, adds, utreexo.Proof{Targets: tg, Proof: pf})
					if e != nil {
						if s.NumLeaves != nl || len(s.Roots) != len(before) {
							out = "nonatomic"
						}
						for k := range before {
							if k < len(s.Roots) && before[k] != s.Roots[k] {
								out = "nonatomic"
							}
						}
					}
				}
				return
			}
			a, err := buildAdv(r.sy, &l.Step, &l.Expect)
			if err != nil {
				out = "cannot build: " + err.Error()
				return
			}
			if c.API == "Stump.Update" {
				s := utreexo.Stump{Roots: append([]Hash{}, a.stump.Roots...), NumLeaves: a.stump.NumLeaves}
				adds := []Hash{r.sy.H(leafTerm(int(l.Expect.N)))}
				if c.AddsPat != "" {
					adds = addsOfPattern(r.sy, c.AddsPat)
				}
				_, e := s.Update(hs, adds, utreexo.Proof{Targets: tg, Proof: pf})
				if e != nil {
					same := s.NumLeaves == a.stump.NumLeaves
					for k := 0; same && k < len(s.Roots); k++ {
						same = s.Roots[k] == a.stump.Roots[k]
					}
					if !same {
						out = "nonatomic"
					}
				}
				return
			}
			for i, n := range advAPIs {
				if n == c.API {
					if a.call(i, hs, tg, pf) {
						out = "accept"
					} else {
						out = "reject"
					}
				}
			}
		})
		if pan != "" {
			out = "panic: " + pan
		}
		done <- out
	}()
	select {
	case out := <-done:
		bad := false
		switch v.Fail.Cat {
		case "unsound":
			bad = out == "accept"
		case "panic":
			bad = strings.HasPrefix(out, "panic")
		case "nonatomic":
			bad = out == "nonatomic"
		}
		if bad {
			fmt.Printf("REPRODUCED property=%s api=%s %s: %s\n", v.Property, c.API, v.Fail.Cat, out)
			return 1
		}
		fmt.Println("NOT-REPRODUCED (", out, ")")
		return 0
	case <-time.After(60 * time.Second):
		if v.Fail.Cat == "hang" {
			fmt.Printf("REPRODUCED property=%s api=%s hang: no return within 60s\n", v.Property, c.API)
			return 1
		}
		fmt.Println("NOT-REPRODUCED (hang instead of", v.Fail.Cat, ")")
		return 0
	}
}
