package main

// Concurrency of the map forest (spec/MapLock.tla, property C12).
//
// Three bindings, all on the real MapPollard:
//  1. schedule replay: the schedules are the states of MapLock.tla in which
//     the writer is suspended at an interior point of its critical section
//     while a set of queries is issued (collected from TLC's output by the
//     "lock" family in collect mode).  The writer operations and the states
//     they run in are the behaviours of spec/Partial.tla.  The real writer is
//     suspended at the interior point through the verif hook, the queries are
//     started, the writer is released, and every query result must equal the
//     answer of the whole-block state before or after the operation (answers
//     of sequential reference runs).  No verdict depends on timing.
//  2. free-running stress (race build): readers hammer the forest while the
//     writer applies a TLC-generated history; every result must equal the
//     answer of a whole-block state inside the call window [committed at
//     start, started at return]; data races are reported by the Go race
//     detector.
//  3. every call is logged ({c0, s1, matched block}) and validated by TLC
//     against AtomicBlocks (spec/MapLockTrace.tla).

import (
	"bytes"
	"encoding/json"
	"fmt"
	"os"
	"path/filepath"
	"runtime"
	"sort"
	"strings"
	"sync"
	"sync/atomic"
	"time"

	"github.com/utreexo/utreexo"
)

var queryKinds = []string{"GetRoots", "GetStump", "Prove", "Verify", "GetLeafPosition", "GetLeafHashPositions",
	"GetHash", "GetMissingPositions", "GetNumLeaves", "GetTreeRows", "Write", "VerifyPartialProof"}

// verification that also remembers (of a leaf that is remembered already, so
// that the call is a pure query as far as the other answers are concerned);
// only used in schedules, never in the stress
var rememberKinds = []string{"Verify/remember", "VerifyPartialProof/remember"}

// answers that do not depend on which optional positions an instance stores
var storedIndependent = map[string]bool{"GetRoots": true, "GetStump": true, "GetNumLeaves": true, "GetTreeRows": true,
	"GetLeafPosition": true, "GetLeafHashPositions": true, "Prove": true, "Verify": true, "VerifyPartialProof": true,
	"Verify/remember": true, "VerifyPartialProof/remember": true}

type lockSchedule struct {
	Site   int      `json:"site"`             // writer suspended at its Site-th interior point (0: reader schedule)
	Reader string   `json:"reader,omitempty"` // reader schedule: this query is suspended holding its lock
	Kinds  []string `json:"kinds"`
}

func init() {
	families["lock"] = func(r *Runner, l *Line) lineResult { return r.collectSchedule(l) }
}

var lockSched struct {
	mu   sync.Mutex
	seen map[string]bool
	list []lockSchedule
	once sync.Once
}

// collectSchedule (stage 1): remember the distinct schedules TLC generated.
func (r *Runner) collectSchedule(l *Line) lineResult {
	var s lockSchedule
	if err := json.Unmarshal(l.G, &s); err != nil {
		return lineResult{skipped: "bad schedule line"}
	}
	sort.Strings(s.Kinds)
	key := fmt.Sprintf("%d/%s/%s", s.Site, s.Reader, strings.Join(s.Kinds, ","))
	lockSched.mu.Lock()
	defer lockSched.mu.Unlock()
	if lockSched.seen == nil {
		lockSched.seen = map[string]bool{}
	}
	if lockSched.seen[key] {
		return lineResult{}
	}
	lockSched.seen[key] = true
	lockSched.list = append(lockSched.list, s)
	if path := optVal(r.extra, "schedout", ""); path != "" {
		b, _ := json.Marshal(lockSched.list)
		os.WriteFile(path, b, 0o644)
	}
	return lineResult{nontrivial: true, extra: map[string]int{"schedules": 1}}
}

func (r *Runner) loadSchedules() []lockSchedule {
	lockSched.once.Do(func() {
		path := optVal(r.extra, "sched", "")
		b, err := os.ReadFile(path)
		if err != nil && r.one {
			// re-execution of a stored case after the run's scratch directory is
			// gone: every single-query schedule (a superset of what a run samples)
			all := append(append([]string{}, queryKinds...), rememberKinds...)
			for site := 1; site <= 4; site++ {
				for _, k := range all {
					lockSched.list = append(lockSched.list, lockSchedule{Site: site, Kinds: []string{k}})
				}
			}
			for _, k := range all {
				for _, k2 := range all {
					lockSched.list = append(lockSched.list, lockSchedule{Reader: k, Kinds: []string{k2}})
				}
			}
			return
		}
		if err != nil {
			fmt.Fprintln(os.Stderr, "ERROR cannot read schedules:", err)
			os.Exit(2)
		}
		if err := json.Unmarshal(b, &lockSched.list); err != nil || len(lockSched.list) == 0 {
			fmt.Fprintln(os.Stderr, "ERROR no schedules:", err)
			os.Exit(2)
		}
	})
	return lockSched.list
}

// ---------------------------------------------------------------------------
// the hook: at most one schedule runs at a time in a process
// ---------------------------------------------------------------------------

type pauseCtl struct {
	mu      sync.Mutex
	hit     int    // pause at the hit-th interior point of the writer (1-based); 0 = never
	atSite  string // or: pause the first time this (query) site is reached
	count   int
	sites   []string
	done    bool
	paused  chan struct{}
	release chan struct{}
}

var hookMu sync.Mutex // serialises everything that installs the hook

// hook is called from the library at every hook point (writer interior
// points and, prefixed "q.", queries that have just taken their lock).
func (p *pauseCtl) hook(site string) {
	p.mu.Lock()
	stop := false
	if strings.HasPrefix(site, "q.") {
		if (p.atSite == site || p.atSite == "q.*") && !p.done {
			p.done = true
			stop = true
		}
	} else {
		p.count++
		p.sites = append(p.sites, site)
		if p.hit != 0 && p.count == p.hit && !p.done {
			p.done = true
			stop = true
		}
	}
	p.mu.Unlock()
	if stop {
		close(p.paused)
		<-p.release
	}
}

func (p *pauseCtl) siteList() string {
	p.mu.Lock()
	defer p.mu.Unlock()
	return strings.Join(p.sites, ",")
}

// ---------------------------------------------------------------------------
// writer operations: the steps of spec/Partial.tla, plus Read into a fresh forest
// ---------------------------------------------------------------------------

type lockCase struct {
	sy     *Symb
	rows   uint8
	hist   []Step
	op     Step
	readOp bool // the writer restores the post state into a fresh instance
	custom bool // build on the custom storage back-ends (operations can be suspended at a look-up)
	full   bool // a full forest (it tracks every leaf, so remembering verifications are queries without an effect)
}

// applyPartialStep applies one step of the Partial family to m (sequentially,
// or as the writer of a schedule).
func (c *lockCase) applyStep(m *utreexo.MapPollard, st *Step, n uint64, prevN uint64) error {
	sy := c.sy
	R := treeRows(n)
	enc1 := func(ts []JPos, R uint8) []uint64 {
		out := make([]uint64, len(ts))
		for i, t := range ts {
			out[i] = enc(t.RI(), R)
		}
		return out
	}
	lh := func(slots []int) []Hash {
		out := make([]Hash, len(slots))
		for i, s := range slots {
			out[i] = sy.H(leafTerm(s))
		}
		return out
	}
	switch st.A {
	case "mod":
		rem := map[int]bool{}
		for _, i := range st.Rem {
			rem[i] = true
		}
		leaves := make([]utreexo.Leaf, st.K)
		for i := range leaves {
			leaves[i] = utreexo.Leaf{Hash: sy.H(leafTerm(int(n) + i)), Remember: rem[i]}
		}
		return m.Modify(leaves, lh(st.D), utreexo.Proof{Targets: enc1(st.Pf.T, R), Proof: sy.Hs(st.Pf.P)})
	case "vrem":
		return m.Verify(lh(st.S), utreexo.Proof{Targets: enc1(st.Pf.T, R), Proof: sy.Hs(st.Pf.P)}, true)
	case "ingest":
		return m.Ingest(lh(st.S), utreexo.Proof{Targets: enc1(st.Pf.T, R), Proof: sy.Hs(st.Pf.P)})
	case "prune":
		return m.Prune(lh(st.S))
	case "undo":
		return m.Undo(uint64(st.K), utreexo.Proof{Targets: enc1(st.Pf.T, treeRows(prevN)), Proof: sy.Hs(st.Pf.P)},
			lh(st.D), sy.Hs(st.Pre))
	}
	return fmt.Errorf("unsupported step %s", st.A)
}

// build applies the steps sequentially to a fresh partial forest.  It returns
// the instance, the leaf count, and the leaf count before the last block
// (for undo).
func (c *lockCase) build(steps []Step) (*utreexo.MapPollard, uint64, []uint64, error) {
	m := newMap(false, c.rows)
	if c.custom {
		m = newMapCustom(false, c.rows)
	}
	n := uint64(0)
	var stk []uint64
	for i := range steps {
		st := &steps[i]
		prevN := uint64(0)
		if st.A == "undo" {
			prevN = stk[len(stk)-1]
		}
		if err := c.applyStep(m, st, n, prevN); err != nil {
			return nil, 0, nil, fmt.Errorf("step %d (%s): %v", i, st.A, err)
		}
		switch st.A {
		case "mod":
			stk = append(stk, n)
			n += uint64(st.K)
		case "undo":
			n = stk[len(stk)-1]
			stk = stk[:len(stk)-1]
		}
	}
	return m, n, stk, nil
}

// ---------------------------------------------------------------------------
// queries and their normalised answers
// ---------------------------------------------------------------------------

type queryArgs struct {
	leaf    Hash   // a leaf hash to ask about
	leaf2   Hash   // another one
	pos     uint64 // a position to read
	targets []uint64
	vHashes []Hash
	vProof  utreexo.Proof
	pHashes []Hash // proof hashes for VerifyPartialProof
	// the leaf is remembered before and after the writer's operation, so that
	// verifying it again with remember=true changes nothing
	rememberOK bool
	// Prove is preceded by a request of 301 hashes that has to be refused (schedules of a sample of the cases only:
	// the refusal message lists every hash)
	bigProve bool
}

func (c *lockCase) answer(m *utreexo.MapPollard, kind string, a *queryArgs) (out string) {
	sy := c.sy
	defer func() {
		if r := recover(); r != nil {
			out = "PANIC: " + fmt.Sprint(r)
		}
	}()
	switch kind {
	case "GetRoots":
		return strings.Join(sy.Ts(m.GetRoots()), " ")
	case "GetStump":
		s := m.GetStump()
		return fmt.Sprintf("%d %s", s.NumLeaves, strings.Join(sy.Ts(s.Roots), " "))
	case "Prove":
		// first a large request that has to be refused (one hash is unknown): whatever the call
		// started must be over when it returns
		var berr error
		if a.bigProve {
			big := make([]Hash, 0, 301)
			for i := 0; i < 300; i++ {
				big = append(big, a.leaf)
			}
			big = append(big, sy.H(junkTerm(9)))
			_, berr = m.Prove(big)
		}
		p, err := m.Prove([]Hash{a.leaf})
		if err != nil {
			return "err " + errStr(berr)
		}
		return fmt.Sprintf("%v %s %s", p.Targets, strings.Join(sy.Ts(p.Proof), " "), errStr(berr))
	case "Verify":
		if err := m.Verify(a.vHashes, a.vProof, false); err != nil {
			return "err"
		}
		return "ok"
	case "GetLeafPosition":
		p, f := m.GetLeafPosition(a.leaf)
		return fmt.Sprintf("%d %v", p, f)
	case "GetLeafHashPositions":
		// a large request (the same two hashes 750 times): the answer is one snapshot, however
		// the implementation chooses to go through the request
		req := make([]Hash, 0, 1500)
		for i := 0; i < 750; i++ {
			req = append(req, a.leaf, a.leaf2)
		}
		got := m.GetLeafHashPositions(req)
		uniform := len(got) == len(req)
		for i := 2; uniform && i < len(got); i++ {
			uniform = got[i] == got[i-2]
		}
		if uniform {
			return fmt.Sprint(got[:2], " x750")
		}
		return fmt.Sprint(got)
	case "GetHash":
		return sy.T(m.GetHash(a.pos))
	case "GetMissingPositions":
		return fmt.Sprint(m.GetMissingPositions(a.targets))
	case "GetNumLeaves":
		return fmt.Sprint(m.GetNumLeaves())
	case "GetTreeRows":
		return fmt.Sprint(m.GetTreeRows())
	case "Write":
		var buf bytes.Buffer
		if _, err := m.Write(&buf); err != nil {
			return "err"
		}
		x := utreexo.NewMapPollard(false)
		if _, err := x.Read(&buf); err != nil {
			return "unreadable: " + err.Error()
		}
		return fmt.Sprintf("%d %d %s %d", x.TotalRows, x.GetNumLeaves(), strings.Join(sy.Ts(x.GetRoots()), " "), x.CachedLeaves.Length())
	case "VerifyPartialProof":
		if err := m.VerifyPartialProof(a.targets, a.vHashes, a.pHashes, false); err != nil {
			return "err"
		}
		return "ok"
	case "Verify/remember":
		if len(a.vHashes) == 0 || !a.rememberOK {
			return "n/a"
		}
		if err := m.Verify(a.vHashes, a.vProof, true); err != nil {
			return "err"
		}
		return "ok"
	case "VerifyPartialProof/remember":
		if len(a.vHashes) == 0 || !a.rememberOK {
			return "n/a"
		}
		if err := m.VerifyPartialProof(a.targets, a.vHashes, a.pHashes, true); err != nil {
			return "err"
		}
		return "ok"
	}
	return "?"
}

// argsFor chooses the arguments of the queries from a sequential reference
// instance: a remembered leaf if there is one.
func (c *lockCase) argsFor(ref *utreexo.MapPollard, n uint64) *queryArgs {
	a := &queryArgs{leaf: c.sy.H(leafTerm(0)), leaf2: c.sy.H(leafTerm(1))}
	var hs []Hash
	ref.CachedLeaves.ForEach(func(h Hash, pos uint64) error {
		hs = append(hs, h)
		return nil
	})
	sort.Slice(hs, func(i, j int) bool { return bytes.Compare(hs[i][:], hs[j][:]) < 0 })
	if len(hs) > 0 {
		a.leaf = hs[0]
		if len(hs) > 1 {
			a.leaf2 = hs[1]
		}
		if p, err := ref.Prove([]Hash{a.leaf}); err == nil {
			a.vHashes = []Hash{a.leaf}
			a.vProof = p
			a.targets = append([]uint64{}, p.Targets...)
			a.pos = p.Targets[0]
		}
	}
	return a
}

// ---------------------------------------------------------------------------
// stage 2: schedule replay + stress on the behaviours of spec/Partial.tla
// ---------------------------------------------------------------------------

type lockEvent struct {
	Ev      string `json:"ev"`
	Kind    string `json:"kind"`
	C0      int    `json:"c0"`
	S1      int    `json:"s1"`
	Matched int    `json:"matched"` // index of the whole-block state whose answer was returned; -1: none
	Mode    string `json:"mode"`
}

func (r *Runner) replayLockCase(l *Line) lineResult {
	r.internLine(l)
	res := lineResult{insts: 1, extra: map[string]int{}, nontrivial: true}
	st := &l.Step
	if st.A == "fromroots" || st.A == "restore" || st.A == "missq" {
		return lineResult{skipped: "not a writer operation"}
	}
	if lockDead.Load() {
		// goroutines of an earlier case are stuck in the library: nothing more can be run in this process
		return lineResult{skipped: "skipped after a deadlock"}
	}
	effectOnly := optVal(r.extra, "effectonly", "") == "1"
	var scheds []lockSchedule
	if !effectOnly {
		scheds = r.loadSchedules()
	}
	stressEvery := 0
	fmt.Sscan(optVal(r.extra, "stress", "0"), &stressEvery)
	w := NewWorld(r.sy, WorldCfg{})
	fail := func(cat, what string, exp, got any) {
		if cat == "deadlock" {
			lockDead.Store(true)
		}
		props := []string{"C12"}
		if cat == "notatomic" {
			// a remembering verification that is not atomic leaves hashes in the forest that were
			// verified against another state: from then on false claims are accepted (C03)
			props = append(props, "C03")
		}
		w.fails = append(w.fails, Fail{Props: props, Inst: "map.part", Cat: cat, What: what, Exp: exp, Got: got, Step: len(l.Hist)})
	}
	hookMu.Lock()
	defer func() {
		utreexo.VerifPoint = nil
		hookMu.Unlock()
	}()
	utreexo.VerifPoint = nil
	for _, rows := range []uint8{63, 0} {
		for _, readOp := range []bool{false, true} {
			if effectOnly && readOp {
				continue
			}
			c := &lockCase{sy: r.sy, rows: rows, hist: l.Hist, op: *st, readOp: readOp}
			all := append(append([]Step{}, l.Hist...), *st)
			// sequential references: the whole-block states before and after the operation
			pre, n, stk, err := c.build(l.Hist)
			if err != nil {
				return lineResult{skipped: "cannot build the state: " + err.Error()}
			}
			pc := &pauseCtl{}
			utreexo.VerifPoint = pc.hook
			post, _, _, err := c.build(all)
			utreexo.VerifPoint = nil
			if err != nil {
				return lineResult{skipped: "cannot apply the operation: " + err.Error()}
			}
			// hook hits of the operation itself = hits of the full build minus those of the history
			pc0 := &pauseCtl{}
			utreexo.VerifPoint = pc0.hook
			c.build(l.Hist)
			utreexo.VerifPoint = nil
			opHits := pc.count - pc0.count
			var postBytes []byte
			if readOp {
				var buf bytes.Buffer
				if _, err := post.Write(&buf); err != nil {
					continue
				}
				postBytes = buf.Bytes()
				pre = newMap(false, 63) // the fresh forest the stream is restored into
				pc1 := &pauseCtl{}
				utreexo.VerifPoint = pc1.hook
				x := utreexo.NewMapPollard(false)
				x.Read(bytes.NewReader(postBytes))
				utreexo.VerifPoint = nil
				opHits = pc1.count
				post = &x
			}
			args := c.argsFor(post, n)
			if pa := c.argsFor(pre, n); len(pa.vHashes) > 0 && len(args.vHashes) == 0 {
				args = pa
			}
			args.bigProve = r.one || lineHash(l.raw)%6 == 0
			ansPre := map[string]string{}
			ansPost := map[string]string{}
			for _, k := range queryKinds {
				ansPre[k] = c.answer(pre, k, args)
				ansPost[k] = c.answer(post, k, args)
			}
			_, f0 := pre.GetLeafPosition(args.leaf)
			_, f1 := post.GetLeafPosition(args.leaf)
			args.rememberOK = f0 && f1 && len(args.vHashes) > 0
			for _, k := range rememberKinds {
				// on throw-away copies: a remembering call may change what is stored
				ansPre[k], ansPost[k] = "n/a", "n/a"
				if args.rememberOK && !readOp {
					if x, _, _, err := c.build(l.Hist); err == nil {
						ansPre[k] = c.answer(x, k, args)
					}
					if x, _, _, err := c.build(all); err == nil {
						ansPost[k] = c.answer(x, k, args)
					}
				}
			}
			prevN := uint64(0)
			if st.A == "undo" && len(stk) > 0 {
				prevN = stk[len(stk)-1]
			}
			perSite := 0
			fmt.Sscan(optVal(r.extra, "persite", "0"), &perSite)
			if r.one {
				perSite = 0
			}
			taken := map[int]int{}
			off := 0
			if len(scheds) > 0 {
				off = int(lineHash(l.raw) % uint64(len(scheds)))
			}
			for si := range scheds {
				sc := scheds[(si+off)%len(scheds)]
				if sc.Reader != "" {
					continue
				}
				if sc.Site > opHits {
					continue
				}
				if perSite > 0 && taken[sc.Site] >= perSite {
					continue
				}
				taken[sc.Site]++
				var m *utreexo.MapPollard
				if readOp {
					x := utreexo.NewMapPollard(false)
					m = &x
				} else {
					m, _, _, err = c.build(l.Hist)
					if err != nil {
						continue
					}
				}
				ctl := &pauseCtl{hit: sc.Site, paused: make(chan struct{}), release: make(chan struct{})}
				utreexo.VerifPoint = ctl.hook
				wdone := make(chan string, 1)
				go func() {
					var e error
					pan := protect(func() {
						if readOp {
							_, e = m.Read(bytes.NewReader(postBytes))
						} else {
							e = c.applyStep(m, st, n, prevN)
						}
					})
					if pan != "" {
						wdone <- "PANIC: " + pan
					} else if e != nil {
						wdone <- "error: " + e.Error()
					} else {
						wdone <- ""
					}
				}()
				select {
				case <-ctl.paused:
				case msg := <-wdone:
					// the operation finished without reaching the point (cannot happen: opHits counted)
					utreexo.VerifPoint = nil
					if msg != "" {
						fail("writer", "writer failed: "+msg, nil, nil)
					}
					continue
				case <-time.After(10 * time.Second):
					fail("deadlock", "the writer neither reached the suspension point nor finished within 10s", nil, nil)
					utreexo.VerifPoint = nil
					res.fails = w.fails
					return res
				}
				// the writer is suspended inside its critical section: issue the queries
				type qres struct {
					kind, ans string
				}
				out := make(chan qres, len(sc.Kinds))
				var startedN atomic.Int32
				for _, k := range sc.Kinds {
					k := k
					go func() {
						startedN.Add(1)
						out <- qres{k, c.answer(m, k, args)}
					}()
				}
				// give queries that do not block a chance to return while the
				// writer is suspended (the verdict does not depend on this)
				deadline := time.Now().Add(300 * time.Microsecond)
				for int(startedN.Load()) < len(sc.Kinds) || time.Now().Before(deadline) {
					runtime.Gosched()
					if len(out) == len(sc.Kinds) {
						break
					}
					if time.Now().After(deadline.Add(5 * time.Millisecond)) {
						break
					}
				}
				early := len(out)
				close(ctl.release)
				got := []qres{}
				timeout := time.After(10 * time.Second)
				dead := false
				for len(got) < len(sc.Kinds) && !dead {
					select {
					case q := <-out:
						got = append(got, q)
					case <-timeout:
						dead = true
					}
				}
				var wmsg string
				select {
				case wmsg = <-wdone:
				case <-time.After(10 * time.Second):
					dead = true
				}
				utreexo.VerifPoint = nil
				res.calls += len(sc.Kinds)
				res.extra["schedules_run"]++
				res.extra["queries_returned_while_suspended"] += early
				if dead {
					fail("deadlock", fmt.Sprintf("deadlock: writer %s suspended at interior point %d with queries %v did not complete within 10s", st.A, sc.Site, sc.Kinds), nil, nil)
					res.fails = w.fails
					return res
				}
				if wmsg != "" {
					fail("writer", "writer failed: "+wmsg, nil, nil)
				}
				opName := st.A
				if readOp {
					opName = "read"
				}
				remembering := false
				for _, k := range sc.Kinds {
					remembering = remembering || strings.HasSuffix(k, "/remember")
				}
				for _, q := range got {
					if remembering && !storedIndependent[q.kind] {
						continue
					}
					matched := -1
					if q.ans == ansPre[q.kind] {
						matched = 0
					} else if q.ans == ansPost[q.kind] {
						matched = 1
					}
					r.logEvent(lockEvent{Ev: "call", Kind: q.kind, C0: 0, S1: 1, Matched: matched, Mode: "schedule"})
					if strings.HasPrefix(q.ans, "PANIC") {
						fail("panic", fmt.Sprintf("%s panicked while the writer (%s, TotalRows %d) was suspended at interior point %d (%s): %s", q.kind, opName, rows, sc.Site, ctl.siteList(), q.ans), nil, nil)
					} else if matched < 0 {
						fail("halfapplied", fmt.Sprintf("%s issued while the writer (%s, TotalRows %d) was suspended at interior point %d (%s) returned a result that is correct neither before nor after the operation", q.kind, opName, rows, sc.Site, ctl.siteList()),
							map[string]string{"before": ansPre[q.kind], "after": ansPost[q.kind]}, q.ans)
					}
				}
				// afterwards the instance is in the post state
				for _, k := range []string{"GetRoots", "GetNumLeaves"} {
					if a := c.answer(m, k, args); a != ansPost[k] {
						fail("poststate", fmt.Sprintf("after %s with suspended writer and concurrent queries %v: %s", opName, sc.Kinds, k), ansPost[k], a)
					}
				}
			}
			if !readOp {
				if dead := !effectOnly && c.readerSchedules(r, l, scheds, n, prevN, args, ansPre, ansPost, fail, &res); dead {
					res.fails = w.fails
					return res
				}
				if dead := c.effectSchedules(r, l, n, prevN, opHits, fail, &res); dead {
					res.fails = w.fails
					return res
				}
			}
		}
	}
	// Read of a snapshot into the forest while it is in use: in a child process (a lock that is
	// mishandled there aborts the process)
	readPop := 0
	fmt.Sscan(optVal(r.extra, "readpop", "0"), &readPop)
	if readPop > 0 && len(l.Hist) >= 1 && (r.one || (lineHash(l.raw)>>16)%uint64(readPop) == 0) {
		r.readPopChild(l, &res, fail)
	}
	if stressEvery > 0 && len(l.Hist) >= 2 && (r.one || lineHash(l.raw)%uint64(stressEvery) == 0) {
		r.lockStress(l, &res, fail)
	}
	res.fails = dedupFails(w.fails)
	if reps := raceReports(raceLogPrefix()); len(reps) > lockSeenRaces {
		// the race detector reported a data race while this case was running
		lockSeenRaces = len(reps)
		res.fails = append(res.fails, Fail{Props: []string{"C12"}, Inst: "map.part", Cat: "race",
			What: "data race reported by the Go race detector", Got: firstLines(reps[len(reps)-1], 40), Step: len(l.Hist)})
	}
	return res
}

var lockSeenRaces int

// set once a case ended in a deadlock
var lockDead atomic.Bool

func raceLogPrefix() string {
	for _, kv := range strings.Fields(os.Getenv("GORACE")) {
		if strings.HasPrefix(kv, "log_path=") {
			return kv[len("log_path="):]
		}
	}
	return ""
}

func firstLines(s string, n int) string {
	ls := strings.Split(s, "\n")
	if len(ls) > n {
		ls = ls[:n]
	}
	return strings.Join(ls, "\n")
}

// readerSchedules: a query is suspended right after it has taken its lock;
// the writer starts (and has to wait), further queries are issued (they queue
// behind the waiting writer), then the suspended query is released.  Everyone
// must finish, and every answer must be the one of the state before or after
// the writer's operation.
func (c *lockCase) readerSchedules(r *Runner, l *Line, scheds []lockSchedule, n, prevN uint64, args *queryArgs,
	ansPre, ansPost map[string]string, fail func(cat, what string, exp, got any), res *lineResult) (deadlocked bool) {
	st := &l.Step
	perSite := 0
	fmt.Sscan(optVal(r.extra, "persite", "0"), &perSite)
	if r.one {
		perSite = 0
	}
	taken := 0
	off := int(lineHash(l.raw) % uint64(len(scheds)))
	for si := range scheds {
		sc := scheds[(si+off)%len(scheds)]
		if sc.Reader == "" {
			continue
		}
		if perSite > 0 && taken >= 2*perSite {
			break
		}
		taken++
		m, _, _, err := c.build(l.Hist)
		if err != nil {
			return false
		}
		// the query is suspended the first time it has taken a lock (whichever method took it:
		// a query may be composed of several locked sections)
		site := "q.*"
		ctl := &pauseCtl{atSite: site, paused: make(chan struct{}), release: make(chan struct{})}
		utreexo.VerifPoint = ctl.hook
		type qres struct{ kind, ans string }
		total := 1 + len(sc.Kinds)
		out := make(chan qres, total)
		r1 := make(chan qres, 1)
		go func() { r1 <- qres{sc.Reader, c.answer(m, sc.Reader, args)} }()
		reached := false
		select {
		case <-ctl.paused:
			reached = true
			go func() { out <- <-r1 }()
		case q := <-r1:
			// the query returned without reaching its hook point (nothing to ask, early return)
			out <- q
		case <-time.After(5 * time.Second):
			go func() { out <- <-r1 }()
		}
		wdone := make(chan string, 1)
		go func() {
			var e error
			pan := protect(func() { e = c.applyStep(m, st, n, prevN) })
			if pan != "" {
				wdone <- "PANIC: " + pan
			} else if e != nil {
				wdone <- "error: " + e.Error()
			} else {
				wdone <- ""
			}
		}()
		// let the writer reach its Lock() and queue there
		spin := time.Now().Add(300 * time.Microsecond)
		for time.Now().Before(spin) {
			runtime.Gosched()
		}
		for _, k := range sc.Kinds {
			k := k
			go func() { out <- qres{k, c.answer(m, k, args)} }()
		}
		spin = time.Now().Add(300 * time.Microsecond)
		for time.Now().Before(spin) {
			runtime.Gosched()
		}
		// release the suspended query (or whoever reached the point in the meantime)
		close(ctl.release)
		got := []qres{}
		timeout := time.After(10 * time.Second)
		dead := false
		for len(got) < total && !dead {
			select {
			case q := <-out:
				got = append(got, q)
			case <-timeout:
				dead = true
			}
		}
		wmsg := ""
		if !dead {
			select {
			case wmsg = <-wdone:
			case <-time.After(10 * time.Second):
				dead = true
			}
		}
		utreexo.VerifPoint = nil
		res.calls += total
		res.extra["reader_schedules_run"]++
		if reached {
			res.extra["reader_schedules_suspended"]++
		}
		if dead {
			fail("deadlock", fmt.Sprintf("deadlock: query %s suspended after taking its lock, writer %s waiting for the lock, further queries %v: not everyone finished within 10s of releasing the query", sc.Reader, st.A, sc.Kinds), nil, nil)
			return true
		}
		if wmsg != "" {
			fail("writer", "writer failed: "+wmsg, nil, nil)
		}
		remembering := strings.HasSuffix(sc.Reader, "/remember")
		for _, k := range sc.Kinds {
			remembering = remembering || strings.HasSuffix(k, "/remember")
		}
		for _, q := range got {
			if remembering && !storedIndependent[q.kind] {
				continue
			}
			matched := -1
			if q.ans == ansPre[q.kind] {
				matched = 0
			} else if q.ans == ansPost[q.kind] {
				matched = 1
			}
			r.logEvent(lockEvent{Ev: "call", Kind: q.kind, C0: 0, S1: 1, Matched: matched, Mode: "reader-schedule"})
			if strings.HasPrefix(q.ans, "PANIC") {
				fail("panic", fmt.Sprintf("%s panicked (query %s suspended holding its lock, writer %s waiting): %s", q.kind, sc.Reader, st.A, q.ans), nil, nil)
			} else if matched < 0 {
				fail("halfapplied", fmt.Sprintf("%s returned a result that is correct neither before nor after the writer's %s (schedule: query %s suspended after taking its lock, writer waiting, further queries %v)", q.kind, st.A, sc.Reader, sc.Kinds),
					map[string]string{"before": ansPre[q.kind], "after": ansPost[q.kind]}, q.ans)
			}
		}
		for _, k := range []string{"GetRoots", "GetNumLeaves"} {
			if a := c.answer(m, k, args); a != ansPost[k] {
				fail("poststate", fmt.Sprintf("after %s with query %s suspended: %s", st.A, sc.Reader, k), ansPost[k], a)
			}
		}
	}
	return false
}

// ---------------------------------------------------------------------------
// free-running stress
// ---------------------------------------------------------------------------

func (r *Runner) lockStress(l *Line, res *lineResult, fail func(cat, what string, exp, got any)) {
	all := append(append([]Step{}, l.Hist...), l.Step)
	c := &lockCase{sy: r.sy, rows: 63}
	if lineHash(l.raw)%2 == 1 {
		c.rows = 0
	}
	// every third case runs on a full forest: it tracks every leaf, so the remembering verifications are
	// among the readers' queries there (on a partial forest they have an effect and belong to the effect schedules)
	c.full = (lineHash(l.raw)/2)%3 == 0
	kinds := queryKinds
	if c.full {
		kinds = append(append([]string{}, queryKinds...), rememberKinds...)
	}
	// the writer's programme: the history, then (if it ends in a block) that
	// block undone and applied again, several times
	type wop struct {
		st    Step
		n     uint64 // leaves before the operation
		prevN uint64 // for undo: leaves before the undone block
	}
	var prog []wop
	n := uint64(0)
	var stk []uint64
	for i := range all {
		st := all[i]
		op := wop{st: st, n: n}
		if st.A == "undo" {
			op.prevN = stk[len(stk)-1]
		}
		prog = append(prog, op)
		switch st.A {
		case "mod":
			stk = append(stk, n)
			n += uint64(st.K)
		case "undo":
			n = stk[len(stk)-1]
			stk = stk[:len(stk)-1]
		}
	}
	cycles := 0
	fmt.Sscan(optVal(r.extra, "cycles", "20"), &cycles)
	if last := all[len(all)-1]; last.A == "mod" {
		before := stk[len(stk)-1]
		undo := Step{A: "undo", K: last.K, D: last.D, Pf: last.Pf, Pre: last.Pre}
		for i := 0; i < cycles; i++ {
			prog = append(prog, wop{st: undo, n: n, prevN: before})
			prog = append(prog, wop{st: last, n: before})
		}
	}
	// a sequential twin runs the same programme first: its answers after every
	// operation are the whole-block answers
	twin := newMap(c.full, c.rows)
	var args *queryArgs
	{
		probe := newMap(c.full, c.rows)
		for _, op := range prog[:len(all)] {
			if err := c.applyStep(probe, &op.st, op.n, op.prevN); err != nil {
				return
			}
		}
		args = c.argsFor(probe, 0)
		args.rememberOK = c.full && len(args.vHashes) > 0
	}
	ans := make([]map[string]string, 0, len(prog)+1)
	snap := func() {
		a := map[string]string{}
		for _, k := range kinds {
			a[k] = c.answer(twin, k, args)
		}
		ans = append(ans, a)
	}
	snap()
	for _, op := range prog {
		if err := c.applyStep(twin, &op.st, op.n, op.prevN); err != nil {
			return
		}
		snap()
	}
	m := newMap(c.full, c.rows)
	var committed, started atomic.Int32
	stop := make(chan struct{})
	var wg sync.WaitGroup
	var mu sync.Mutex
	bad := 0
	nreaders := 4
	var ncalls atomic.Int64
	for ri := 0; ri < nreaders; ri++ {
		wg.Add(1)
		go func(ri int) {
			defer wg.Done()
			for i := ri; ; i++ {
				select {
				case <-stop:
					return
				default:
				}
				k := kinds[i%len(kinds)]
				c0 := int(committed.Load())
				a := c.answer(m, k, args)
				s1 := int(started.Load())
				ncalls.Add(1)
				matched := -1
				for b := c0; b <= s1 && b < len(ans); b++ {
					if ans[b][k] == a {
						matched = b
						break
					}
				}
				if i%200 == 0 || matched < 0 {
					r.logEvent(lockEvent{Ev: "call", Kind: k, C0: c0, S1: s1, Matched: matched, Mode: "stress"})
				}
				if matched < 0 {
					mu.Lock()
					if bad == 0 {
						fail("halfapplied.stress", fmt.Sprintf("%s returned, between operation %d committed and operation %d started, a result that belongs to no whole-block state in that window", k, c0, s1),
							map[string]any{"window": []int{c0, s1}}, a)
					}
					bad++
					mu.Unlock()
				}
			}
		}(ri)
	}
	// the writer, under a watchdog
	wres := make(chan string, 1)
	go func() {
		werr := ""
		pan := protect(func() {
			for _, op := range prog {
				started.Add(1)
				if err := c.applyStep(m, &op.st, op.n, op.prevN); err != nil {
					werr = "error: " + err.Error()
					return
				}
				committed.Add(1)
				// let the readers run between blocks
				for j := 0; j < 10; j++ {
					runtime.Gosched()
				}
			}
		})
		if pan != "" {
			werr = "PANIC: " + pan
		}
		wres <- werr
	}()
	select {
	case werr := <-wres:
		if strings.HasPrefix(werr, "PANIC") {
			fail("panic", "writer panicked under concurrent queries: "+werr, nil, nil)
		} else if werr != "" {
			fail("writer", "writer failed under concurrent queries: "+werr, nil, nil)
		}
	case <-time.After(30 * time.Second):
		fail("deadlock", fmt.Sprintf("deadlock: the writer did not complete its %d operations within 30s while %d readers were issuing queries", len(prog), nreaders), nil, nil)
		res.extra["stress_runs"]++
		return // the goroutines are stuck; they are abandoned
	}
	close(stop)
	done := make(chan struct{})
	go func() { wg.Wait(); close(done) }()
	select {
	case <-done:
	case <-time.After(20 * time.Second):
		fail("deadlock", "readers did not finish within 20s after the writer completed", nil, nil)
	}
	res.calls += int(ncalls.Load())
	res.extra["stress_runs"]++
	if c.full {
		res.extra["stress_runs_full_forest"]++
	}
	res.extra["stress_writer_ops"] += len(prog)
	res.extra["stress_queries"] += int(ncalls.Load())
}

func lineHash(s string) uint64 {
	var h uint64 = 1469598103934665603
	for i := 0; i < len(s); i++ {
		h ^= uint64(s[i])
		h *= 1099511628211
	}
	return h
}

// raceReports collects the reports the race detector wrote for this process
// (GORACE=log_path=<prefix>): one entry per "WARNING: DATA RACE" block.
func raceReports(prefix string) []string {
	var out []string
	if prefix == "" {
		return nil
	}
	files, _ := filepath.Glob(prefix + ".*")
	for _, f := range files {
		b, err := os.ReadFile(f)
		if err != nil {
			continue
		}
		for _, blk := range strings.Split(string(b), "==================") {
			if strings.Contains(blk, "DATA RACE") {
				out = append(out, strings.TrimSpace(blk))
			}
		}
	}
	return out
}
