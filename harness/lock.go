package main

// Concurrency of the map forest (spec/MapLock.tla, property C12).
//
// Three bindings, all on the real MapPollard:
//  1. schedule replay: the schedules are the states of MapLock.tla in which
//     the writer is suspended at an interior point of its critical section
//     while a set of queries is issued (collected from TLC's output by the
//     "lock" family in collect mode).  The writer operations and the states
//     they run in are the behaviours of spec/Partial.tla.  The real writer is
//     suspended at the interior point through the verif hook, the queries are
//     started, the writer is released, and every query result must equal the
//     answer of the whole-block state before or after the operation (answers
//     of sequential reference runs).  No verdict depends on timing.
//  2. free-running stress (race build): readers hammer the forest while the
//     writer applies a TLC-generated history; every result must equal the
//     answer of a whole-block state inside the call window [committed at
//     start, started at return]; data races are reported by the Go race
//     detector.
//  3. every call is logged ({c0, s1, matched block}) and validated by TLC
//     against AtomicBlocks (spec/MapLockTrace.tla).

import (
	"bytes"
	"encoding/json"
	"fmt"
	"os"
	"path/filepath"
	"runtime"
	"sort"
	"strings"
	"sync"
	"sync/atomic"
	"time"

	"github.com/utreexo/utreexo"
)

var queryKinds = []string{"GetRoots", "GetStump", "Prove", "Verify", "GetLeafPosition", "GetLeafHashPositions",
	"GetHash", "GetMissingPositions", "GetNumLeaves", "GetTreeRows", "Write", "VerifyPartialProof"}

type lockSchedule struct {
	Site  int      `json:"site"`
	Kinds []string `json:"kinds"`
}

func init() {
	families["lock"] = func(r *Runner, l *Line) lineResult { return r.collectSchedule(l) }
}

var lockSched struct {
	mu   sync.Mutex
	seen map[string]bool
	list []lockSchedule
	once sync.Once
}

// collectSchedule (stage 1): remember the distinct schedules TLC generated.
func (r *Runner) collectSchedule(l *Line) lineResult {
	var s lockSchedule
	if err := json.Unmarshal(l.G, &s); err != nil {
		return lineResult{skipped: "bad schedule line"}
	}
	sort.Strings(s.Kinds)
	key := fmt.Sprintf("%d/%s", s.Site, strings.Join(s.Kinds, ","))
	lockSched.mu.Lock()
	defer lockSched.mu.Unlock()
	if lockSched.seen == nil {
		lockSched.seen = map[string]bool{}
	}
	if lockSched.seen[key] {
		return lineResult{}
	}
	lockSched.seen[key] = true
	lockSched.list = append(lockSched.list, s)
	if path := optVal(r.extra, "schedout", ""); path != "" {
		b, _ := json.Marshal(lockSched.list)
		os.WriteFile(path, b, 0o644)
	}
	return lineResult{nontrivial: true, extra: map[string]int{"schedules": 1}}
}

func (r *Runner) loadSchedules() []lockSchedule {
	lockSched.once.Do(func() {
		path := optVal(r.extra, "sched", "")
		b, err := os.ReadFile(path)
		if err != nil {
			fmt.Fprintln(os.Stderr, "ERROR cannot read schedules:", err)
			os.Exit(2)
		}
		if err := json.Unmarshal(b, &lockSched.list); err != nil || len(lockSched.list) == 0 {
			fmt.Fprintln(os.Stderr, "ERROR no schedules:", err)
			os.Exit(2)
		}
	})
	return lockSched.list
}

// ---------------------------------------------------------------------------
// the hook: at most one schedule runs at a time in a process
// ---------------------------------------------------------------------------

type pauseCtl struct {
	hit     int // pause at the hit-th call of the hook (1-based); 0 = never
	count   int
	sites   []string
	paused  chan struct{}
	release chan struct{}
}

var hookMu sync.Mutex // serialises everything that installs the hook

func (p *pauseCtl) hook(site string) {
	p.count++
	p.sites = append(p.sites, site)
	if p.hit != 0 && p.count == p.hit {
		close(p.paused)
		<-p.release
	}
}

// ---------------------------------------------------------------------------
// writer operations: the steps of spec/Partial.tla, plus Read into a fresh forest
// ---------------------------------------------------------------------------

type lockCase struct {
	sy     *Symb
	rows   uint8
	hist   []Step
	op     Step
	readOp bool // the writer restores the post state into a fresh instance
}

// applyPartialStep applies one step of the Partial family to m (sequentially,
// or as the writer of a schedule).
func (c *lockCase) applyStep(m *utreexo.MapPollard, st *Step, n uint64, prevN uint64) error {
	sy := c.sy
	R := treeRows(n)
	enc1 := func(ts []JPos, R uint8) []uint64 {
		out := make([]uint64, len(ts))
		for i, t := range ts {
			out[i] = enc(t.RI(), R)
		}
		return out
	}
	lh := func(slots []int) []Hash {
		out := make([]Hash, len(slots))
		for i, s := range slots {
			out[i] = sy.H(leafTerm(s))
		}
		return out
	}
	switch st.A {
	case "mod":
		rem := map[int]bool{}
		for _, i := range st.Rem {
			rem[i] = true
		}
		leaves := make([]utreexo.Leaf, st.K)
		for i := range leaves {
			leaves[i] = utreexo.Leaf{Hash: sy.H(leafTerm(int(n) + i)), Remember: rem[i]}
		}
		return m.Modify(leaves, lh(st.D), utreexo.Proof{Targets: enc1(st.Pf.T, R), Proof: sy.Hs(st.Pf.P)})
	case "vrem":
		return m.Verify(lh(st.S), utreexo.Proof{Targets: enc1(st.Pf.T, R), Proof: sy.Hs(st.Pf.P)}, true)
	case "ingest":
		return m.Ingest(lh(st.S), utreexo.Proof{Targets: enc1(st.Pf.T, R), Proof: sy.Hs(st.Pf.P)})
	case "prune":
		return m.Prune(lh(st.S))
	case "undo":
		return m.Undo(uint64(st.K), utreexo.Proof{Targets: enc1(st.Pf.T, treeRows(prevN)), Proof: sy.Hs(st.Pf.P)},
			lh(st.D), sy.Hs(st.Pre))
	}
	return fmt.Errorf("unsupported step %s", st.A)
}

// build applies the steps sequentially to a fresh partial forest.  It returns
// the instance, the leaf count, and the leaf count before the last block
// (for undo).
func (c *lockCase) build(steps []Step) (*utreexo.MapPollard, uint64, []uint64, error) {
	m := newMap(false, c.rows)
	n := uint64(0)
	var stk []uint64
	for i := range steps {
		st := &steps[i]
		prevN := uint64(0)
		if st.A == "undo" {
			prevN = stk[len(stk)-1]
		}
		if err := c.applyStep(m, st, n, prevN); err != nil {
			return nil, 0, nil, fmt.Errorf("step %d (%s): %v", i, st.A, err)
		}
		switch st.A {
		case "mod":
			stk = append(stk, n)
			n += uint64(st.K)
		case "undo":
			n = stk[len(stk)-1]
			stk = stk[:len(stk)-1]
		}
	}
	return m, n, stk, nil
}

// ---------------------------------------------------------------------------
// queries and their normalised answers
// ---------------------------------------------------------------------------

type queryArgs struct {
	leaf    Hash   // a leaf hash to ask about
	leaf2   Hash   // another one
	pos     uint64 // a position to read
	targets []uint64
	vHashes []Hash
	vProof  utreexo.Proof
	pHashes []Hash // proof hashes for VerifyPartialProof
}

func (c *lockCase) answer(m *utreexo.MapPollard, kind string, a *queryArgs) (out string) {
	sy := c.sy
	defer func() {
		if r := recover(); r != nil {
			out = "PANIC: " + fmt.Sprint(r)
		}
	}()
	switch kind {
	case "GetRoots":
		return strings.Join(sy.Ts(m.GetRoots()), " ")
	case "GetStump":
		s := m.GetStump()
		return fmt.Sprintf("%d %s", s.NumLeaves, strings.Join(sy.Ts(s.Roots), " "))
	case "Prove":
		p, err := m.Prove([]Hash{a.leaf})
		if err != nil {
			return "err"
		}
		return fmt.Sprintf("%v %s", p.Targets, strings.Join(sy.Ts(p.Proof), " "))
	case "Verify":
		if err := m.Verify(a.vHashes, a.vProof, false); err != nil {
			return "err"
		}
		return "ok"
	case "GetLeafPosition":
		p, f := m.GetLeafPosition(a.leaf)
		return fmt.Sprintf("%d %v", p, f)
	case "GetLeafHashPositions":
		return fmt.Sprint(m.GetLeafHashPositions([]Hash{a.leaf, a.leaf2}))
	case "GetHash":
		return sy.T(m.GetHash(a.pos))
	case "GetMissingPositions":
		return fmt.Sprint(m.GetMissingPositions(a.targets))
	case "GetNumLeaves":
		return fmt.Sprint(m.GetNumLeaves())
	case "GetTreeRows":
		return fmt.Sprint(m.GetTreeRows())
	case "Write":
		var buf bytes.Buffer
		if _, err := m.Write(&buf); err != nil {
			return "err"
		}
		x := utreexo.NewMapPollard(false)
		if _, err := x.Read(&buf); err != nil {
			return "unreadable: " + err.Error()
		}
		return fmt.Sprintf("%d %d %s %d", x.TotalRows, x.GetNumLeaves(), strings.Join(sy.Ts(x.GetRoots()), " "), x.CachedLeaves.Length())
	case "VerifyPartialProof":
		if err := m.VerifyPartialProof(a.targets, a.vHashes, a.pHashes, false); err != nil {
			return "err"
		}
		return "ok"
	}
	return "?"
}

// argsFor chooses the arguments of the queries from a sequential reference
// instance: a remembered leaf if there is one.
func (c *lockCase) argsFor(ref *utreexo.MapPollard, n uint64) *queryArgs {
	a := &queryArgs{leaf: c.sy.H(leafTerm(0)), leaf2: c.sy.H(leafTerm(1))}
	var hs []Hash
	ref.CachedLeaves.ForEach(func(h Hash, pos uint64) error {
		hs = append(hs, h)
		return nil
	})
	sort.Slice(hs, func(i, j int) bool { return bytes.Compare(hs[i][:], hs[j][:]) < 0 })
	if len(hs) > 0 {
		a.leaf = hs[0]
		if len(hs) > 1 {
			a.leaf2 = hs[1]
		}
		if p, err := ref.Prove([]Hash{a.leaf}); err == nil {
			a.vHashes = []Hash{a.leaf}
			a.vProof = p
			a.targets = append([]uint64{}, p.Targets...)
			a.pos = p.Targets[0]
		}
	}
	return a
}

// ---------------------------------------------------------------------------
// stage 2: schedule replay + stress on the behaviours of spec/Partial.tla
// ---------------------------------------------------------------------------

type lockEvent struct {
	Ev      string `json:"ev"`
	Kind    string `json:"kind"`
	C0      int    `json:"c0"`
	S1      int    `json:"s1"`
	Matched int    `json:"matched"` // index of the whole-block state whose answer was returned; -1: none
	Mode    string `json:"mode"`
}

func (r *Runner) replayLockCase(l *Line) lineResult {
	r.internLine(l)
	res := lineResult{insts: 1, extra: map[string]int{}, nontrivial: true}
	st := &l.Step
	if st.A == "fromroots" || st.A == "restore" || st.A == "missq" {
		return lineResult{skipped: "not a writer operation"}
	}
	scheds := r.loadSchedules()
	stressEvery := 0
	fmt.Sscan(optVal(r.extra, "stress", "0"), &stressEvery)
	w := NewWorld(r.sy, WorldCfg{})
	fail := func(cat, what string, exp, got any) {
		w.fails = append(w.fails, Fail{Props: []string{"C12"}, Inst: "map.part", Cat: cat, What: what, Exp: exp, Got: got, Step: len(l.Hist)})
	}
	hookMu.Lock()
	defer func() {
		utreexo.VerifPoint = nil
		hookMu.Unlock()
	}()
	utreexo.VerifPoint = nil
	for _, rows := range []uint8{63, 0} {
		for _, readOp := range []bool{false, true} {
			c := &lockCase{sy: r.sy, rows: rows, hist: l.Hist, op: *st, readOp: readOp}
			all := append(append([]Step{}, l.Hist...), *st)
			// sequential references: the whole-block states before and after the operation
			pre, n, stk, err := c.build(l.Hist)
			if err != nil {
				return lineResult{skipped: "cannot build the state: " + err.Error()}
			}
			pc := &pauseCtl{}
			utreexo.VerifPoint = pc.hook
			post, _, _, err := c.build(all)
			utreexo.VerifPoint = nil
			if err != nil {
				return lineResult{skipped: "cannot apply the operation: " + err.Error()}
			}
			// hook hits of the operation itself = hits of the full build minus those of the history
			pc0 := &pauseCtl{}
			utreexo.VerifPoint = pc0.hook
			c.build(l.Hist)
			utreexo.VerifPoint = nil
			opHits := pc.count - pc0.count
			var postBytes []byte
			if readOp {
				var buf bytes.Buffer
				if _, err := post.Write(&buf); err != nil {
					continue
				}
				postBytes = buf.Bytes()
				pre = newMap(false, 63) // the fresh forest the stream is restored into
				pc1 := &pauseCtl{}
				utreexo.VerifPoint = pc1.hook
				x := utreexo.NewMapPollard(false)
				x.Read(bytes.NewReader(postBytes))
				utreexo.VerifPoint = nil
				opHits = pc1.count
				post = &x
			}
			args := c.argsFor(post, n)
			if pa := c.argsFor(pre, n); len(pa.vHashes) > 0 && len(args.vHashes) == 0 {
				args = pa
			}
			ansPre := map[string]string{}
			ansPost := map[string]string{}
			for _, k := range queryKinds {
				ansPre[k] = c.answer(pre, k, args)
				ansPost[k] = c.answer(post, k, args)
			}
			prevN := uint64(0)
			if st.A == "undo" && len(stk) > 0 {
				prevN = stk[len(stk)-1]
			}
			perSite := 0
			fmt.Sscan(optVal(r.extra, "persite", "0"), &perSite)
			taken := map[int]int{}
			off := int(lineHash(l.raw) % uint64(len(scheds)))
			for si := range scheds {
				sc := scheds[(si+off)%len(scheds)]
				if sc.Site > opHits {
					continue
				}
				if perSite > 0 && taken[sc.Site] >= perSite {
					continue
				}
				taken[sc.Site]++
				var m *utreexo.MapPollard
				if readOp {
					x := utreexo.NewMapPollard(false)
					m = &x
				} else {
					m, _, _, err = c.build(l.Hist)
					if err != nil {
						continue
					}
				}
				ctl := &pauseCtl{hit: sc.Site, paused: make(chan struct{}), release: make(chan struct{})}
				utreexo.VerifPoint = ctl.hook
				wdone := make(chan string, 1)
				go func() {
					var e error
					pan := protect(func() {
						if readOp {
							_, e = m.Read(bytes.NewReader(postBytes))
						} else {
							e = c.applyStep(m, st, n, prevN)
						}
					})
					if pan != "" {
						wdone <- "PANIC: " + pan
					} else if e != nil {
						wdone <- "error: " + e.Error()
					} else {
						wdone <- ""
					}
				}()
				select {
				case <-ctl.paused:
				case msg := <-wdone:
					// the operation finished without reaching the point (cannot happen: opHits counted)
					utreexo.VerifPoint = nil
					if msg != "" {
						fail("writer", "writer failed: "+msg, nil, nil)
					}
					continue
				case <-time.After(10 * time.Second):
					fail("deadlock", "the writer neither reached the suspension point nor finished within 10s", nil, nil)
					utreexo.VerifPoint = nil
					res.fails = w.fails
					return res
				}
				// the writer is suspended inside its critical section: issue the queries
				type qres struct {
					kind, ans string
				}
				out := make(chan qres, len(sc.Kinds))
				var startedN atomic.Int32
				for _, k := range sc.Kinds {
					k := k
					go func() {
						startedN.Add(1)
						out <- qres{k, c.answer(m, k, args)}
					}()
				}
				// give queries that do not block a chance to return while the
				// writer is suspended (the verdict does not depend on this)
				deadline := time.Now().Add(300 * time.Microsecond)
				for int(startedN.Load()) < len(sc.Kinds) || time.Now().Before(deadline) {
					runtime.Gosched()
					if len(out) == len(sc.Kinds) {
						break
					}
					if time.Now().After(deadline.Add(5 * time.Millisecond)) {
						break
					}
				}
				early := len(out)
				close(ctl.release)
				got := []qres{}
				timeout := time.After(10 * time.Second)
				dead := false
				for len(got) < len(sc.Kinds) && !dead {
					select {
					case q := <-out:
						got = append(got, q)
					case <-timeout:
						dead = true
					}
				}
				var wmsg string
				select {
				case wmsg = <-wdone:
				case <-time.After(10 * time.Second):
					dead = true
				}
				utreexo.VerifPoint = nil
				res.calls += len(sc.Kinds)
				res.extra["schedules_run"]++
				res.extra["queries_returned_while_suspended"] += early
				if dead {
					fail("deadlock", fmt.Sprintf("deadlock: writer %s suspended at interior point %d with queries %v did not complete within 10s", st.A, sc.Site, sc.Kinds), nil, nil)
					res.fails = w.fails
					return res
				}
				if wmsg != "" {
					fail("writer", "writer failed: "+wmsg, nil, nil)
				}
				opName := st.A
				if readOp {
					opName = "read"
				}
				for _, q := range got {
					matched := -1
					if q.ans == ansPre[q.kind] {
						matched = 0
					} else if q.ans == ansPost[q.kind] {
						matched = 1
					}
					r.logEvent(lockEvent{Ev: "call", Kind: q.kind, C0: 0, S1: 1, Matched: matched, Mode: "schedule"})
					if strings.HasPrefix(q.ans, "PANIC") {
						fail("panic", fmt.Sprintf("%s panicked while the writer (%s, TotalRows %d) was suspended at interior point %d (%s): %s", q.kind, opName, rows, sc.Site, strings.Join(ctl.sites, ","), q.ans), nil, nil)
					} else if matched < 0 {
						fail("halfapplied", fmt.Sprintf("%s issued while the writer (%s, TotalRows %d) was suspended at interior point %d (%s) returned a result that is correct neither before nor after the operation", q.kind, opName, rows, sc.Site, strings.Join(ctl.sites, ",")),
							map[string]string{"before": ansPre[q.kind], "after": ansPost[q.kind]}, q.ans)
					}
				}
				// afterwards the instance is in the post state
				for _, k := range []string{"GetRoots", "GetNumLeaves"} {
					if a := c.answer(m, k, args); a != ansPost[k] {
						fail("poststate", fmt.Sprintf("after %s with suspended writer and concurrent queries %v: %s", opName, sc.Kinds, k), ansPost[k], a)
					}
				}
			}
		}
	}
	if stressEvery > 0 && len(l.Hist) >= 2 && lineHash(l.raw)%uint64(stressEvery) == 0 {
		r.lockStress(l, &res, fail)
	}
	res.fails = dedupFails(w.fails)
	if reps := raceReports(raceLogPrefix()); len(reps) > lockSeenRaces {
		// the race detector reported a data race while this case was running
		lockSeenRaces = len(reps)
		res.fails = append(res.fails, Fail{Props: []string{"C12"}, Inst: "map.part", Cat: "race",
			What: "data race reported by the Go race detector", Got: firstLines(reps[len(reps)-1], 40), Step: len(l.Hist)})
	}
	return res
}

var lockSeenRaces int

func raceLogPrefix() string {
	for _, kv := range strings.Fields(os.Getenv("GORACE")) {
		if strings.HasPrefix(kv, "log_path=") {
			return kv[len("log_path="):]
		}
	}
	return ""
}

func firstLines(s string, n int) string {
	ls := strings.Split(s, "\n")
	if len(ls) > n {
		ls = ls[:n]
	}
	return strings.Join(ls, "\n")
}

// ---------------------------------------------------------------------------
// free-running stress
// ---------------------------------------------------------------------------

func (r *Runner) lockStress(l *Line, res *lineResult, fail func(cat, what string, exp, got any)) {
	all := append(append([]Step{}, l.Hist...), l.Step)
	c := &lockCase{sy: r.sy, rows: 63}
	if lineHash(l.raw)%2 == 1 {
		c.rows = 0
	}
	// sequential references for every prefix
	refs := make([]*utreexo.MapPollard, len(all)+1)
	for i := 0; i <= len(all); i++ {
		m, _, _, err := c.build(all[:i])
		if err != nil {
			return
		}
		refs[i] = m
	}
	args := c.argsFor(refs[len(all)], 0)
	for i := len(all) - 1; i >= 0 && len(args.vHashes) == 0; i-- {
		args = c.argsFor(refs[i], 0)
	}
	ans := make([]map[string]string, len(refs))
	for i, m := range refs {
		ans[i] = map[string]string{}
		for _, k := range queryKinds {
			ans[i][k] = c.answer(m, k, args)
		}
	}
	m := newMap(false, c.rows)
	var committed, started atomic.Int32
	stop := make(chan struct{})
	var wg sync.WaitGroup
	var mu sync.Mutex
	bad := 0
	nreaders := 4
	var ncalls atomic.Int64
	for ri := 0; ri < nreaders; ri++ {
		wg.Add(1)
		go func(ri int) {
			defer wg.Done()
			for i := ri; ; i++ {
				select {
				case <-stop:
					return
				default:
				}
				k := queryKinds[i%len(queryKinds)]
				c0 := int(committed.Load())
				a := c.answer(m, k, args)
				s1 := int(started.Load())
				ncalls.Add(1)
				matched := -1
				for b := c0; b <= s1 && b < len(ans); b++ {
					if ans[b][k] == a {
						matched = b
						break
					}
				}
				if i%50 == 0 || matched < 0 {
					r.logEvent(lockEvent{Ev: "call", Kind: k, C0: c0, S1: s1, Matched: matched, Mode: "stress"})
				}
				if matched < 0 {
					mu.Lock()
					if bad == 0 {
						fail("halfapplied.stress", fmt.Sprintf("%s returned, between block %d committed and block %d started, a result that belongs to no whole-block state in that window", k, c0, s1),
							map[string]any{"window": []int{c0, s1}}, a)
					}
					bad++
					mu.Unlock()
				}
			}
		}(ri)
	}
	// the writer
	n := uint64(0)
	var stk []uint64
	werr := ""
	pan := protect(func() {
		for rep := 0; rep < 1; rep++ {
			for i := range all {
				st := &all[i]
				prevN := uint64(0)
				if st.A == "undo" {
					prevN = stk[len(stk)-1]
				}
				started.Add(1)
				if err := c.applyStep(m, st, n, prevN); err != nil {
					werr = err.Error()
					return
				}
				committed.Add(1)
				switch st.A {
				case "mod":
					stk = append(stk, n)
					n += uint64(st.K)
				case "undo":
					n = stk[len(stk)-1]
					stk = stk[:len(stk)-1]
				}
				// let the readers run between blocks
				for j := 0; j < 20; j++ {
					runtime.Gosched()
				}
			}
		}
	})
	close(stop)
	done := make(chan struct{})
	go func() { wg.Wait(); close(done) }()
	select {
	case <-done:
	case <-time.After(20 * time.Second):
		fail("deadlock", "readers did not finish within 20s after the writer completed", nil, nil)
	}
	if pan != "" {
		fail("panic", "writer panicked under concurrent queries: "+pan, nil, nil)
	} else if werr != "" {
		fail("writer", "writer failed under concurrent queries: "+werr, nil, nil)
	}
	res.calls += int(ncalls.Load())
	res.extra["stress_runs"]++
	res.extra["stress_queries"] += int(ncalls.Load())
}

func lineHash(s string) uint64 {
	var h uint64 = 1469598103934665603
	for i := 0; i < len(s); i++ {
		h ^= uint64(s[i])
		h *= 1099511628211
	}
	return h
}

// raceReports collects the reports the race detector wrote for this process
// (GORACE=log_path=<prefix>): one entry per "WARNING: DATA RACE" block.
func raceReports(prefix string) []string {
	var out []string
	if prefix == "" {
		return nil
	}
	files, _ := filepath.Glob(prefix + ".*")
	for _, f := range files {
		b, err := os.ReadFile(f)
		if err != nil {
			continue
		}
		for _, blk := range strings.Split(string(b), "==================") {
			if strings.Contains(blk, "DATA RACE") {
				out = append(out, strings.TrimSpace(blk))
			}
		}
	}
	return out
}
