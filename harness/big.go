package main

// Large forests (driver option big=1).  Several defects only appear beyond a
// size threshold (fast paths for blocks with thousands of targets, for
// subtrees taller than 8 rows, for more than 64 wanted targets, for more than
// a few hundred stored nodes).  The exhaustive stages cannot reach those
// sizes; this driver builds forests with thousands of leaves in a few very
// large blocks (structured so that many leaves have moved up before their
// neighbours are deleted), records the roots every instance shows - judged by
// TLC on spec/CoreTrace.tla like every other driver trace - and, for what TLC
// cannot evaluate at that size, compares the implementations with each other
// on random samples: leaf positions, proofs (pointer forest = map forest),
// verification, proof restriction with more than 64 wants against the
// prover's own proof of the wants, and a serialization round trip of a
// partial forest with hundreds of remembered leaves.  A disagreement between
// two implementations is a violation whichever of them is wrong.

import (
	"bytes"
	"fmt"
	"sort"

	"github.com/utreexo/utreexo"
)

func (w *driveWorld) runBig(maxN int) {
	p := utreexo.NewAccumulator()
	w.insts = []*Inst{
		{Name: "pollard", Kind: KPollard, P: &p},
		{Name: "map.full.63", Kind: KMapFull, Rows: 63, M: newMap(true, 63)},
		{Name: "map.full.0", Kind: KMapFull, Rows: 0, M: newMap(true, 0)},
		{Name: "map.part.63", Kind: KMapPart, Rows: 63, M: newMap(false, 63), cached: map[int]bool{}},
	}
	w.emit(newEv("reset", w.h, w.i))
	w.flush()
	if w.h == 1 {
		if pan := protect(w.sizeSweep); pan != "" {
			w.fail([]string{"C13"}, "map.part.sweep", "panic", "the size sweep panicked: "+pan)
		}
		if len(w.fails) > 0 {
			return
		}
	}
	if w.h == 0 {
		if pan := protect(w.bigBatch); pan != "" {
			w.fail([]string{"C04"}, "verifiers", "panic", "the big-batch verification panicked: "+pan)
		}
		if len(w.fails) > 0 {
			return
		}
	}
	n0 := maxN * 2 / 3
	pan := protect(func() {
		// 1. one huge block of additions
		w.bigBlock(nil, n0)
		// 2. every fourth leaf of the first quarter: its sibling moves up a row
		var d []int
		for k := 0; 4*k < n0/2; k++ {
			d = append(d, 4*k)
		}
		w.bigBlock(d, 3)
		// 3. the rest of those groups of four (thousands of targets on rows 0 and 1), with additions
		d = nil
		for k := 0; 4*k < n0/2; k++ {
			d = append(d, 4*k+1, 4*k+2, 4*k+3)
		}
		w.rng.Shuffle(len(d), func(a, b int) { d[a], d[b] = d[b], d[a] })
		w.bigBlock(d, 5)
		// 4. thin out a tall subtree down to a few leaves, then a random third of everything
		d = nil
		for _, s := range w.liveSorted() {
			if s >= n0/2 && s < n0/2+600 && s%97 != 0 {
				d = append(d, s)
			}
		}
		w.bigBlock(d, 0)
		d = nil
		for _, s := range w.liveSorted() {
			if w.rng.Intn(3) == 0 {
				d = append(d, s)
			}
		}
		w.bigBlock(d, maxN-int(w.n))
		// 5. undo it and apply a different one
		if len(w.fails) == 0 {
			w.undo()
			w.bigObserve()
			d = nil
			for _, s := range w.liveSorted() {
				if w.rng.Intn(5) == 0 {
					d = append(d, s)
				}
			}
			w.bigBlock(d, 17)
		}
	})
	if pan != "" {
		w.fail([]string{"C01"}, "", "panic", "the library panicked: "+pan)
	}
	w.flush()
}

func (w *driveWorld) bigBlock(d []int, k int) {
	if len(w.fails) > 0 {
		return
	}
	dels := w.hashes(d)
	proof := utreexo.Proof{}
	if len(d) > 0 {
		pr, err := w.insts[0].P.Prove(dels)
		if err != nil {
			w.fail([]string{"C02"}, "pollard", "prove.error", fmt.Sprintf("Prove of %d leaves failed: %v", len(d), err))
			return
		}
		proof = pr
	}
	adds := make([]Hash, k)
	leaves := make([]utreexo.Leaf, k)
	for i := range adds {
		adds[i] = w.sy.H(leafTerm(int(w.n) + i))
		leaves[i] = utreexo.Leaf{Hash: adds[i]}
	}
	w.stumps = append(w.stumps, utreexo.Stump{Roots: append([]Hash{}, w.stump.Roots...), NumLeaves: w.stump.NumLeaves})
	if _, err := w.stump.Update(dels, adds, proof); err != nil {
		w.fail([]string{"C01"}, "stump", "error", fmt.Sprintf("Stump.Update refused an honest block (%d deletions, %d additions): %v", len(d), k, err))
		return
	}
	saved := driveSaved{n: w.n, live: map[int]bool{}, d: d, k: k, proof: proof, roots: append([]Hash{}, w.stumps[len(w.stumps)-1].Roots...)}
	for s := range w.live {
		saved.live[s] = true
	}
	prem := [][]any{}
	for _, in := range w.insts {
		saved.cached = append(saved.cached, copyCached(in.cached))
		var err error
		if in.Kind == KMapPart {
			if len(d) > 0 {
				if err = in.M.Verify(dels, proof, true); err != nil {
					err = fmt.Errorf("Verify(remember): %v", err)
				}
			}
			if err == nil {
				lv := make([]utreexo.Leaf, k)
				pslots := []int{}
				for i := range lv {
					lv[i] = utreexo.Leaf{Hash: adds[i], Remember: (int(w.n)+i)%2 == 0}
					if lv[i].Remember {
						pslots = append(pslots, int(w.n)+i)
					}
				}
				prem = append(prem, []any{in.Name, pslots})
				err = in.M.Modify(lv, dels, proof)
				for _, s := range d {
					delete(in.cached, s)
				}
				for _, s := range pslots {
					in.cached[s] = true
				}
			}
		} else {
			err = in.acc().Modify(leaves, dels, proof)
		}
		w.calls++
		if err != nil {
			w.fail([]string{"C01", "C05"}, in.Name, "error", fmt.Sprintf("Modify refused an honest block (%d deletions, %d additions): %v", len(d), k, err))
			return
		}
	}
	w.stack = append(w.stack, saved)
	m := newEv("mod", w.h, w.i)
	m.D, m.K, m.Prem = append([]int{}, d...), k, prem
	if len(d) > 0 {
		// the partial forest verified the targets with remember before the block
		pe := newEv("pop", w.h, w.i)
		pe.Inst, pe.Op, pe.S = "map.part.63", "vrem", append([]int{}, d...)
		w.emit(pe)
	}
	w.emit(m)
	for _, s := range d {
		delete(w.live, s)
	}
	for i := 0; i < k; i++ {
		w.live[int(w.n)+i] = true
	}
	w.n += uint64(k)
	w.afterUndo = false
	w.bigObserve()
}

// bigObserve: roots for TLC, everything else compared across implementations on samples.
func (w *driveWorld) bigObserve() {
	sr, sn := append([]Hash{}, w.stump.Roots...), w.stump.NumLeaves
	w.emitLazy(func(e *driveEvent) { e.Inst, e.N, e.Roots = "stump", sn, w.sy.Ts(sr) }, "roots")
	for _, in := range w.insts {
		name, nl, rs := in.Name, in.numLeaves(), append([]Hash{}, in.roots()...)
		w.emitLazy(func(e *driveEvent) { e.Inst, e.N, e.Roots = name, nl, w.sy.Ts(rs) }, "roots")
		// the implementations must also agree with each other (hash values, no naming needed)
		if nl != sn || len(rs) != len(sr) {
			w.fail([]string{"C01", "C05"}, name, "roots", fmt.Sprintf("leaf count / number of roots differ from the roots-only verifier: %d/%d vs %d/%d", nl, len(rs), sn, len(sr)))
			continue
		}
		for i := range rs {
			if rs[i] != sr[i] {
				w.fail([]string{"C01", "C05"}, name, "roots", fmt.Sprintf("root %d differs from the roots-only verifier after a block on %d leaves", i, sn))
				break
			}
		}
	}
	w.flushBig()
	if len(w.fails) > 0 {
		return
	}
	lv := w.liveSorted()
	if len(lv) == 0 {
		return
	}
	pol, mf, m0, mp := w.insts[0], w.insts[1], w.insts[2], w.insts[3]
	// positions of a sample of slots (live and dead)
	for j := 0; j < 400; j++ {
		s := w.rng.Intn(int(w.n))
		h := w.sy.H(leafTerm(s))
		p0, f0 := pol.P.GetLeafPosition(h)
		for _, in := range []*Inst{mf, m0} {
			p1, f1 := in.M.GetLeafPosition(h)
			if f0 != f1 || (f0 && p0 != p1) {
				w.fail([]string{"C10"}, in.Name, "leafpos", fmt.Sprintf("GetLeafPosition(L%d) = (%d,%v) but the pointer forest says (%d,%v) [%d leaves]", s, p1, f1, p0, f0, w.n))
				return
			}
		}
		if f0 != w.live[s] {
			w.fail([]string{"C10"}, "pollard", "leafpos.found", fmt.Sprintf("GetLeafPosition(L%d) found=%v but the leaf is live=%v", s, f0, w.live[s]))
			return
		}
		if f0 && mf.M.GetHash(p0) != h {
			w.fail([]string{"C10"}, mf.Name, "gethash", fmt.Sprintf("GetHash(%d) is not the leaf L%d that GetLeafPosition reports there", p0, s))
			return
		}
		w.calls += 4
	}
	// proofs of a random set (more than 64 leaves), in shuffled request order
	pick := append([]int{}, lv...)
	w.rng.Shuffle(len(pick), func(a, b int) { pick[a], pick[b] = pick[b], pick[a] })
	if len(pick) > 100 {
		pick = pick[:100]
	}
	hs := w.hashes(pick)
	pp, err := pol.P.Prove(hs)
	if err != nil {
		w.fail([]string{"C02"}, "pollard", "prove.error", fmt.Sprintf("Prove of %d live leaves failed: %v", len(pick), err))
		return
	}
	for _, in := range []*Inst{mf, m0} {
		mpf, err := in.M.Prove(hs)
		if err != nil {
			w.fail([]string{"C02"}, in.Name, "prove.error", fmt.Sprintf("Prove of %d live leaves failed: %v", len(pick), err))
			return
		}
		if !eqU64s(pp.Targets, mpf.Targets) || len(pp.Proof) != len(mpf.Proof) {
			w.fail([]string{"C02"}, in.Name, "prove.targets", fmt.Sprintf("proof of %d leaves differs from the pointer forest's (targets / length) [%d leaves]", len(pick), w.n))
			return
		}
		for i := range pp.Proof {
			if pp.Proof[i] != mpf.Proof[i] {
				w.fail([]string{"C02"}, in.Name, "prove.proof", fmt.Sprintf("proof hash %d of a proof of %d leaves differs from the pointer forest's", i, len(pick)))
				return
			}
		}
	}
	if _, err := utreexo.Verify(w.stump, hs, pp); err != nil {
		w.fail([]string{"C02"}, "pollard", "verify.reject", fmt.Sprintf("Verify rejects the proof of %d leaves: %v", len(pick), err))
		return
	}
	// restriction to more than 64 wants, in shuffled order: must equal the prover's proof of the wants
	if len(pick) >= 80 {
		wants := append([]int{}, pick[:70]...)
		w.rng.Shuffle(len(wants), func(a, b int) { wants[a], wants[b] = wants[b], wants[a] })
		wt := make([]uint64, len(wants))
		pos := map[Hash]uint64{}
		for i, h := range hs {
			pos[h] = pp.Targets[i]
		}
		wh := w.hashes(wants)
		for i, h := range wh {
			wt[i] = pos[h]
		}
		sh, sp, err := utreexo.GetProofSubset(pp, hs, wt, w.n)
		ref, err2 := pol.P.Prove(wh)
		if err != nil || err2 != nil {
			w.fail([]string{"C14"}, "proofops", "subset.error", fmt.Sprintf("GetProofSubset of %d wants failed: %v %v", len(wants), err, err2))
			return
		}
		okh := len(sh) == len(wh)
		for i := 0; okh && i < len(wh); i++ {
			okh = sh[i] == wh[i]
		}
		if !okh || !eqU64s(sp.Targets, wt) {
			w.fail([]string{"C14"}, "proofops", "subset.hashes", fmt.Sprintf("GetProofSubset of %d wants: hashes/targets are not those of the wants in request order", len(wants)))
			return
		}
		okp := len(sp.Proof) == len(ref.Proof) && eqU64s(ref.Targets, wt)
		for i := 0; okp && i < len(ref.Proof); i++ {
			okp = sp.Proof[i] == ref.Proof[i]
		}
		if !okp {
			w.fail([]string{"C14"}, "proofops", "subset.proof", fmt.Sprintf("GetProofSubset of %d wants differs from the prover's proof of the wants", len(wants)))
			return
		}
	}
	// which positions are missing for proving two more leaves, given a proof of hundreds: the
	// stand-alone function against a map forest created from the roots that ingested that proof
	if len(lv) >= 700 {
		held := append([]int{}, lv...)
		w.rng.Shuffle(len(held), func(a, b int) { held[a], held[b] = held[b], held[a] })
		want2 := held[500:502]
		held = held[:500]
		sort.Ints(held)
		hh := w.hashes(held)
		hp, err := pol.P.Prove(hh)
		if err != nil {
			w.fail([]string{"C02"}, "pollard", "prove.error", fmt.Sprintf("Prove of %d live leaves failed: %v", len(held), err))
			return
		}
		var des []uint64
		for _, s := range want2 {
			p, _ := pol.P.GetLeafPosition(w.sy.H(leafTerm(s)))
			des = append(des, p)
		}
		sort.Slice(des, func(a, b int) bool { return des[a] < des[b] })
		var a, b []uint64
		pan := protect(func() {
			a = utreexo.GetMissingPositions(w.n, append([]uint64{}, hp.Targets...), append([]uint64{}, des...))
			m := utreexo.NewMapPollardFromRoots(append([]Hash{}, w.stump.Roots...), w.n, false)
			if err := m.Ingest(hh, hp); err != nil {
				w.fail([]string{"C14"}, "map.fromroots", "error", "Ingest of a proof of 500 leaves failed: "+err.Error())
				return
			}
			b = m.GetMissingPositions(append([]uint64{}, des...))
		})
		if pan != "" {
			w.fail([]string{"C14"}, "proofops", "panic", "GetMissingPositions panicked: "+pan)
			return
		}
		if len(w.fails) > 0 {
			return
		}
		if !eqU64s(sortedU64(a), sortedU64(b)) {
			w.fail([]string{"C14"}, "proofops", "missing.disagree", fmt.Sprintf("GetMissingPositions(%d leaves, a proof of 500 targets, %v) = %v but a map forest that ingested that proof lacks %v", w.n, des, sortedU64(a), sortedU64(b)))
			return
		}
		w.calls += 3
	}
	// AddProof of two proofs of 300 leaves each (overlapping in 50): the canonical proof of the union
	if len(lv) >= 700 {
		sh := append([]int{}, lv...)
		w.rng.Shuffle(len(sh), func(a, b int) { sh[a], sh[b] = sh[b], sh[a] })
		A, B := append([]int{}, sh[:300]...), append([]int{}, sh[250:550]...)
		sort.Ints(A)
		sort.Ints(B)
		ha, hb := w.hashes(A), w.hashes(B)
		pa, ea := pol.P.Prove(ha)
		pb, eb := pol.P.Prove(hb)
		if ea != nil || eb != nil {
			w.fail([]string{"C02"}, "pollard", "prove.error", fmt.Sprintf("Prove of 300 live leaves failed: %v %v", ea, eb))
			return
		}
		var uh []Hash
		var up utreexo.Proof
		if pan := protect(func() { uh, up = utreexo.AddProof(pa, pb, ha, hb, w.n) }); pan != "" {
			w.fail([]string{"C14"}, "proofops", "panic", "AddProof of two proofs of 300 leaves panicked: "+pan)
			return
		}
		ref, er := pol.P.Prove(uh)
		ok := er == nil && len(uh) == len(up.Targets) && len(uh) == 550 && len(ref.Proof) == len(up.Proof)
		if ok {
			for i := range ref.Proof {
				ok = ok && ref.Proof[i] == up.Proof[i]
			}
			ok = ok && eqU64s(ref.Targets, up.Targets)
		}
		if !ok {
			w.fail([]string{"C14"}, "proofops", "addproof", fmt.Sprintf("AddProof of two proofs of 300 leaves (50 in common, %d leaves in the forest): %d hashes / %d targets / %d proof hashes, the prover gives %d proof hashes for the union (err %v)", w.n, len(uh), len(up.Targets), len(up.Proof), len(ref.Proof), er))
			return
		}
		if _, err := utreexo.Verify(w.stump, uh, up); err != nil {
			w.fail([]string{"C14"}, "proofops", "addproof.verify", "the result of AddProof of two proofs of 300 leaves does not verify: "+err.Error())
			return
		}
		w.calls += 4
	}
	// the stand-alone GetMissingPositions from several goroutines at once, each with its own proof of
	// more than a thousand targets: every answer is the one the same call gives alone
	if len(lv) >= 3000 {
		type job struct {
			held []uint64
			des  []uint64
			want []uint64
		}
		var jobs []job
		for g := 0; g < 6; g++ {
			sh := append([]int{}, lv...)
			w.rng.Shuffle(len(sh), func(a, b int) { sh[a], sh[b] = sh[b], sh[a] })
			hs := sh[:1100+g*37]
			sort.Ints(hs)
			pr, err := pol.P.Prove(w.hashes(hs))
			if err != nil {
				return
			}
			var des []uint64
			for _, s := range sh[2000 : 2003+g] {
				p, _ := pol.P.GetLeafPosition(w.sy.H(leafTerm(s)))
				des = append(des, p)
			}
			sort.Slice(des, func(a, b int) bool { return des[a] < des[b] })
			j := job{held: pr.Targets, des: des}
			j.want = sortedU64(utreexo.GetMissingPositions(w.n, append([]uint64{}, j.held...), append([]uint64{}, j.des...)))
			jobs = append(jobs, j)
		}
		bad := make(chan string, len(jobs))
		done := make(chan struct{}, len(jobs))
		n := w.n
		for _, j := range jobs {
			j := j
			go func() {
				defer func() {
					if r := recover(); r != nil {
						bad <- fmt.Sprint("panic: ", r)
					}
					done <- struct{}{}
				}()
				for rep := 0; rep < 40; rep++ {
					got := sortedU64(utreexo.GetMissingPositions(n, append([]uint64{}, j.held...), append([]uint64{}, j.des...)))
					if !eqU64s(got, j.want) {
						bad <- fmt.Sprintf("GetMissingPositions for a proof of %d targets and %d wanted positions, called while other goroutines call it for other proofs, returned %d positions; alone it returns %d", len(j.held), len(j.des), len(got), len(j.want))
						return
					}
				}
			}()
		}
		for range jobs {
			<-done
		}
		select {
		case msg := <-bad:
			w.fail([]string{"C14"}, "proofops", "missing.concurrent", msg)
			return
		default:
		}
		w.calls += 6 * 40
	}
	// serialization round trip of the partial forest (hundreds of remembered leaves, thousands of nodes)
	var buf bytes.Buffer
	if _, err := mp.M.Write(&buf); err != nil {
		w.fail([]string{"C13"}, mp.Name, "error", "writing failed: "+err.Error())
		return
	}
	L := buf.Len()
	x := utreexo.NewMapPollard(false)
	rn, err := x.Read(&scriptedReader{data: buf.Bytes(), policy: "half", rng: w.rng})
	if err != nil || rn != L {
		w.fail([]string{"C13"}, mp.Name, "roundtrip", fmt.Sprintf("restoring a stream of %d bytes: n=%d err=%v", L, rn, err))
		return
	}
	type ent struct {
		pos uint64
		lf  utreexo.Leaf
	}
	dump := func(m *utreexo.MapPollard) []ent {
		var out []ent
		m.Nodes.ForEach(func(p uint64, l utreexo.Leaf) error { out = append(out, ent{p, l}); return nil })
		sort.Slice(out, func(a, b int) bool { return out[a].pos < out[b].pos })
		return out
	}
	a, b := dump(mp.M), dump(&x)
	same := len(a) == len(b) && mp.M.CachedLeaves.Length() == x.CachedLeaves.Length()
	for i := 0; same && i < len(a); i++ {
		same = a[i] == b[i]
	}
	if !same {
		w.fail([]string{"C13"}, mp.Name, "roundtrip", fmt.Sprintf("the partial forest restored from its %d bytes (%d nodes) differs from the original in its stored nodes or flags", L, len(a)))
		return
	}
	w.calls += 8
}

// flushBig writes the queued events; internal hashes are named only as far as
// the roots need it (row by row from the leaves would cost too much here), so
// the roots are named by walking the pointer forest's positions top-down.
func (w *driveWorld) flushBig() {
	w.learn()
	for _, f := range w.pending {
		w.out.Encode(f())
	}
	w.pending = nil
}

// bigBatch (once per run): verification of batches of more than 65 536 claims on a
// forest of 2^17 leaves.  The honest batch must be accepted; the same batch with one
// false claim - a duplicated target carrying a fresh hash (at the end, at the front,
// in the middle) or one replaced hash - must be refused by every verifier.
func (w *driveWorld) bigBatch() {
	const N = 1 << 17
	leaves := make([]utreexo.Leaf, N)
	hs := make([]Hash, N)
	for i := range leaves {
		hs[i] = leafHash("verif-bigbatch", uint64(i))
		leaves[i] = utreexo.Leaf{Hash: hs[i]}
	}
	pol := utreexo.NewAccumulator()
	var stump utreexo.Stump
	mf := utreexo.NewMapPollard(true)
	if err := pol.Modify(leaves, nil, utreexo.Proof{}); err != nil {
		return
	}
	if _, err := stump.Update(nil, hs, utreexo.Proof{}); err != nil {
		return
	}
	if err := mf.Modify(leaves, nil, utreexo.Proof{}); err != nil {
		return
	}
	base := hs[:N/2]
	pr, err := pol.Prove(base)
	if err != nil {
		w.fail([]string{"C02"}, "pollard", "prove.error", fmt.Sprintf("Prove of %d leaves failed: %v", len(base), err))
		return
	}
	fake := leafHash("verif-bigbatch-fake", 1)
	type batch struct {
		name  string
		hs    []Hash
		tg    []uint64
		false bool
	}
	cp := func(extraAt int, t uint64, h Hash) ([]Hash, []uint64) {
		bh := make([]Hash, 0, len(base)+1)
		bt := make([]uint64, 0, len(base)+1)
		bh = append(bh, base[:extraAt]...)
		bt = append(bt, pr.Targets[:extraAt]...)
		bh = append(bh, h)
		bt = append(bt, t)
		bh = append(bh, base[extraAt:]...)
		bt = append(bt, pr.Targets[extraAt:]...)
		return bh, bt
	}
	var batches []batch
	batches = append(batches, batch{"the honest batch", base, pr.Targets, false})
	for _, at := range []int{len(base), 0, 40000} {
		bh, bt := cp(at, pr.Targets[12345], fake)
		batches = append(batches, batch{fmt.Sprintf("the honest batch plus a second claim for target 12345 with a fresh hash, inserted at index %d", at), bh, bt, true})
	}
	rh := append([]Hash{}, base...)
	rh[50000] = fake
	batches = append(batches, batch{"the honest batch with the hash of claim 50000 replaced by a fresh value", rh, pr.Targets, true})
	for _, b := range batches {
		p := utreexo.Proof{Targets: b.tg, Proof: pr.Proof}
		res := map[string]error{}
		pan := protect(func() {
			_, e := utreexo.Verify(stump, b.hs, p)
			res["Verify"] = e
			res["Pollard.Verify"] = pol.Verify(b.hs, p, false)
			res["MapPollard.Verify"] = mf.Verify(b.hs, p, false)
		})
		w.calls += 3
		if pan != "" {
			w.fail([]string{"C04"}, "verifiers", "panic", fmt.Sprintf("verifying %s (%d claims) panicked: %s", b.name, len(b.hs), pan))
			continue
		}
		for api, e := range res {
			if b.false && e == nil {
				w.fail([]string{"C03"}, api, "unsound", fmt.Sprintf("%s accepted %s (%d claims, forest of %d leaves)", api, b.name, len(b.hs), N))
			} else if !b.false && e != nil {
				w.fail([]string{"C02"}, api, "verify.reject", fmt.Sprintf("%s rejects %s (%d claims): %v", api, b.name, len(b.hs), e))
			}
		}
	}
}

// sizeSweep (once per run): a map forest that remembers every leaf grows leaf by leaf to
// 1 700 leaves; at every size it is written and restored (with other data following in the
// stream) and the restored forest must have the same leaf count, roots, number of stored
// nodes and of remembered leaves, and the byte counts must agree.  Code that treats the
// stream in chunks goes wrong at particular record counts only.
func (w *driveWorld) sizeSweep() {
	m := utreexo.NewMapPollard(false)
	trailer := []byte{0xA5, 0x5A, 0xA5, 0x5A, 0xA5}
	for n := 0; n < 1700; n++ {
		lf := utreexo.Leaf{Hash: leafHash("verif-sweep", uint64(n)), Remember: true}
		if err := m.Modify([]utreexo.Leaf{lf}, nil, utreexo.Proof{}); err != nil {
			return
		}
		if n < 780 && n%7 != 0 {
			continue // (every size from 780 on, a sample below)
		}
		var buf bytes.Buffer
		wn, err := m.Write(&buf)
		if err != nil || wn != buf.Len() {
			w.fail([]string{"C13"}, "map.part.sweep", "bytecount", fmt.Sprintf("writing a forest of %d leaves: reported %d bytes, wrote %d, err=%v", n+1, wn, buf.Len(), err))
			return
		}
		L := buf.Len()
		buf.Write(trailer)
		x := utreexo.NewMapPollard(false)
		rd := bytes.NewReader(buf.Bytes())
		rn, err := x.Read(rd)
		w.calls += 2
		if err != nil || rn != L || rd.Len() != len(trailer) {
			w.fail([]string{"C13"}, "map.part.sweep", "roundtrip", fmt.Sprintf("restoring the %d bytes of a forest of %d leaves (%d stored nodes, %d remembered leaves): reported %d bytes, %d bytes left in the reader (want %d), err=%v",
				L, n+1, m.Nodes.Length(), m.CachedLeaves.Length(), rn, rd.Len(), len(trailer), err))
			return
		}
		same := x.GetNumLeaves() == m.GetNumLeaves() && x.Nodes.Length() == m.Nodes.Length() && x.CachedLeaves.Length() == m.CachedLeaves.Length()
		ra, rb := m.GetRoots(), x.GetRoots()
		same = same && len(ra) == len(rb)
		for i := 0; same && i < len(ra); i++ {
			same = ra[i] == rb[i]
		}
		if !same {
			w.fail([]string{"C13"}, "map.part.sweep", "roundtrip", fmt.Sprintf("the forest of %d leaves (%d stored nodes, %d remembered leaves) restored from its own bytes differs: %d leaves, %d nodes, %d remembered leaves, roots equal: %v",
				n+1, m.Nodes.Length(), m.CachedLeaves.Length(), x.GetNumLeaves(), x.Nodes.Length(), x.CachedLeaves.Length(), false))
			return
		}
	}
}
