package main

// Large cached proofs (C07, C08), once per run of the light-client family.  The exhaustive and
// scripted stages keep the number of held leaves small enough for TLC; code paths that depend
// on hundreds of cached positions, on blocks with hundreds of targets, or on the exact number
// of positions an undo moves are checked here against the full prover: a pointer forest that
// is fed the same blocks (after an update) or only the earlier blocks (after an undo) must
// give exactly the client's targets and proof, and the proof must verify against the
// corresponding verifier state.
//   sweep:  1023 leaves; the 256-leaf tree is emptied; one leaf is added (its subtree is lifted
//           over the empty root); undo.  The client holds the first j even leaves of the lifted
//           region, for every j from 1 to 128 (the number of positions that move back varies
//           with j through every value up to 256 and beyond).
//   big:    4096 leaves, every eighth held; a block with more than 300 non-twin targets next to
//           held leaves, nested deletions around a held leaf; undo.

import (
	"fmt"
	"sync"

	"github.com/utreexo/utreexo"
)

var lightBigOnce sync.Once

type lbClient struct {
	S utreexo.Stump
	P utreexo.Proof
	H []Hash
}

type lbBlock struct {
	dels   []int // slots
	adds   int
	rem    func(slot int) bool
	stump0 utreexo.Stump
}

func lbHash(s int) Hash { return leafHash("verif-lightbig", uint64(s)) }

// lbRun applies the blocks to a light client and to pointer forests; after every update the client is
// compared with the forest that saw the same blocks; then the last block is undone and the client is
// compared with the forest that saw all but the last.
func lbRun(name string, blocks []lbBlock, fail func(props []string, cat, what string)) int {
	calls := 0
	lc := &lbClient{}
	pol := utreexo.NewAccumulator()
	n := 0
	var prevPol *utreexo.Pollard
	var lastUD utreexo.UpdateData
	var lastProof utreexo.Proof
	var lastDels []Hash
	var lastAdds int
	var prevStump utreexo.Stump
	var nAfter uint64
	var heldBefore []Hash
	compare := func(p *utreexo.Pollard, S utreexo.Stump, props []string, when string) bool {
		if len(lc.H) != len(lc.P.Targets) {
			fail(props, "hold.len", fmt.Sprintf("%s, %s: %d cached hashes for %d targets", name, when, len(lc.H), len(lc.P.Targets)))
			return false
		}
		if len(lc.H) == 0 {
			return true
		}
		fp, err := p.Prove(lc.H)
		if err != nil {
			fail(props, "hold.fullprover", fmt.Sprintf("%s, %s: the full prover cannot prove what the client holds (%d leaves): %v", name, when, len(lc.H), err))
			return false
		}
		ok := eqU64s(fp.Targets, lc.P.Targets) && len(fp.Proof) == len(lc.P.Proof)
		for i := 0; ok && i < len(fp.Proof); i++ {
			ok = fp.Proof[i] == lc.P.Proof[i]
		}
		if !ok {
			fail(props, "hold.fullprover", fmt.Sprintf("%s, %s: the client's targets / proof (%d targets, %d hashes) differ from the full prover's (%d targets, %d hashes)", name, when, len(lc.P.Targets), len(lc.P.Proof), len(fp.Targets), len(fp.Proof)))
			return false
		}
		if _, err := utreexo.Verify(S, lc.H, lc.P); err != nil {
			fail(props, "hold.verify", fmt.Sprintf("%s, %s: the cached proof does not verify: %v", name, when, err))
			return false
		}
		calls += 2
		return true
	}
	for bi, b := range blocks {
		dels := make([]Hash, len(b.dels))
		for i, s := range b.dels {
			dels[i] = lbHash(s)
		}
		var proof utreexo.Proof
		if len(dels) > 0 {
			pr, err := pol.Prove(dels)
			if err != nil {
				return calls
			}
			proof = pr
		}
		adds := make([]Hash, b.adds)
		leaves := make([]utreexo.Leaf, b.adds)
		var rem []uint32
		for i := range adds {
			adds[i] = lbHash(n + i)
			leaves[i] = utreexo.Leaf{Hash: adds[i]}
			if b.rem != nil && b.rem(n+i) {
				rem = append(rem, uint32(i))
			}
		}
		if bi == len(blocks)-1 {
			// keep the forest that saw everything but the last block
			cp := utreexo.NewAccumulator()
			prevPol = &cp
			m := 0
			for _, pb := range blocks[:bi] {
				pd := make([]Hash, len(pb.dels))
				for i, s := range pb.dels {
					pd[i] = lbHash(s)
				}
				var pp utreexo.Proof
				if len(pd) > 0 {
					pp, _ = prevPol.Prove(pd)
				}
				pl := make([]utreexo.Leaf, pb.adds)
				for i := range pl {
					pl[i] = utreexo.Leaf{Hash: lbHash(m + i)}
				}
				prevPol.Modify(pl, pd, pp)
				m += pb.adds
			}
			prevStump = utreexo.Stump{Roots: append([]Hash{}, lc.S.Roots...), NumLeaves: lc.S.NumLeaves}
			heldBefore = append([]Hash{}, lc.H...)
		}
		ud, err := lc.S.Update(dels, adds, proof)
		if err != nil {
			return calls
		}
		newH, err := lc.P.Update(lc.H, adds, proof.Targets, rem, ud)
		calls += 2
		if err != nil {
			fail([]string{"C07"}, "error", fmt.Sprintf("%s, block %d: Proof.Update failed: %v", name, bi, err))
			return calls
		}
		lc.H = newH
		if pol.Modify(leaves, dels, proof) != nil {
			return calls
		}
		n += b.adds
		if !compare(&pol, lc.S, []string{"C07"}, fmt.Sprintf("after block %d (%d deletions, %d additions)", bi, len(dels), b.adds)) {
			return calls
		}
		lastUD, lastProof, lastDels, lastAdds, nAfter = ud, proof, dels, b.adds, lc.S.NumLeaves
	}
	// undo of the last block
	newH, err := lc.P.Undo(uint64(lastAdds), nAfter, lastProof.Targets, lastDels, lc.H, lastUD.ToDestroy, lastProof)
	calls++
	if err != nil {
		fail([]string{"C08"}, "error", fmt.Sprintf("%s: Proof.Undo failed: %v", name, err))
		return calls
	}
	// leaves the undone block deleted are not restored; everything else the client held before is
	lc.H = newH
	lc.S = prevStump
	// exactly the leaves held before the block, minus those the block itself deleted (those may be missing)
	delSet := map[Hash]bool{}
	for _, h := range lastDels {
		delSet[h] = true
	}
	before := map[Hash]bool{}
	for _, h := range heldBefore {
		before[h] = true
	}
	have := map[Hash]bool{}
	for _, h := range lc.H {
		have[h] = true
		if !before[h] {
			fail([]string{"C08"}, "hold.pairs", fmt.Sprintf("%s: after the undo the client holds a leaf it did not hold before the block", name))
			return calls
		}
	}
	for _, h := range heldBefore {
		if !delSet[h] && !have[h] {
			fail([]string{"C08"}, "hold.pairs", fmt.Sprintf("%s: after the undo the client has lost a leaf that it held before the block and that the block did not delete (%d held before, %d now)", name, len(heldBefore), len(lc.H)))
			return calls
		}
	}
	compare(prevPol, prevStump, []string{"C08"}, "after the undo of the last block")
	return calls
}

func lightBig(fail func(props []string, cat, what string)) int {
	calls := 0
	rng := func(a, b int) []int {
		var o []int
		for x := a; x < b; x++ {
			o = append(o, x)
		}
		return o
	}
	// sweep over the number of held leaves in the lifted region
	for j := 1; j <= 128; j++ {
		j := j
		held := func(s int) bool { return s >= 768 && s < 768+2*j && s%2 == 0 }
		calls += lbRun(fmt.Sprintf("1023 leaves, %d held leaves in the region that is lifted over the emptied 256-leaf tree", j), []lbBlock{
			{adds: 1023, rem: held},
			{dels: rng(512, 768)},
			{adds: 1},
		}, fail)
	}
	// the same with a few held leaves outside the lifted region (positions on higher rows in front of the moved ones)
	for _, j := range []int{60, 64, 100, 120, 126, 127, 128} {
		j := j
		held := func(s int) bool { return (s >= 768 && s < 768+2*j && s%2 == 0) || s == 5 || s == 300 || s == 511 }
		calls += lbRun(fmt.Sprintf("1023 leaves, %d held leaves in the lifted region and three outside", j), []lbBlock{
			{adds: 1023, rem: held},
			{dels: append(rng(512, 768), 4, 6, 7)},
			{adds: 1},
		}, fail)
	}
	// a big forest: hundreds of held leaves, a block with hundreds of non-twin targets and nested deletions
	{
		every8 := func(s int) bool { return s%8 == 3 || s == 0 || s == 2 || s == 8 }
		var d []int
		d = append(d, 2, 4, 5, 6, 7, 16, 17, 18) // next to held leaves 0, 3, 8; the whole subtree 4..7; nested around 19
		for s := 2048; s < 2048+700; s += 2 {
			d = append(d, s) // 350 even leaves: no twins
		}
		for s := 3000; s < 3040; s++ {
			if s%8 != 3 {
				d = append(d, s)
			}
		}
		calls += lbRun("4096 leaves, every eighth held, a block with 390 targets", []lbBlock{
			{adds: 4096, rem: every8},
			{dels: []int{1, 9, 10}},
			{dels: d, adds: 3},
		}, fail)
		calls += lbRun("4096 leaves, every eighth held, the big block undone after a further block", []lbBlock{
			{adds: 4096, rem: every8},
			{dels: d, adds: 0},
			{dels: []int{0, 1, 24, 25, 26}, adds: 5},
		}, fail)
	}
	// few held leaves, one of a held pair deleted together with a neighbouring subtree and with hundreds of
	// scattered leaves elsewhere (the proof of the survivor needs positions that were not needed before)
	for _, n0 := range []int{1024, 2048 + 512} {
		held := func(s int) bool { return s == 0 || s == 2 || s == 8 || s == 21 }
		var d []int
		d = append(d, 2, 4, 5, 6, 7)
		for s := n0 / 2; s < n0/2+600 && s < n0; s += 2 {
			d = append(d, s)
		}
		calls += lbRun(fmt.Sprintf("%d leaves, four held, a block with %d targets", n0, len(d)), []lbBlock{
			{adds: n0, rem: held},
			{dels: d, adds: 2},
		}, fail)
		calls += lbRun(fmt.Sprintf("%d leaves, four held, a block with %d targets, then another block", n0, len(d)), []lbBlock{
			{adds: n0, rem: held},
			{dels: d, adds: 0},
			{dels: []int{20, 22, 23}, adds: 1},
		}, fail)
	}
	return calls
}
