package main

// Sparse tall forests (driver option big=2).  A partial forest that remembers
// a few leaves of a forest with hundreds of leaves stores a handful of nodes
// under subtrees 8 or 9 rows tall; code paths that depend on "tall subtree,
// few stored nodes" (moving a whole subtree up when its sibling goes, forgetting
// everything below a deleted position, additions that write over the empty
// root of a tall tree) are out of reach of the exhaustive stages.  The scenario
// is scripted: one aligned block of 2^r leaves (r = 8 or 9) is emptied except
// for one leaf, which has then moved up r rows; that leaf is deleted; further
// additions run over the empty root; an undo and another block follow.  Every
// observation is judged by TLC on spec/CoreTrace.tla: roots of every instance,
// the positions the partial forests report for what they remember, the
// complete dump of what they store (StoredOK: true hashes, between the lower
// and the upper bound) and proofs of remembered leaves.

import (
	"fmt"
	"sort"
	"strconv"

	"github.com/utreexo/utreexo"
)

func (w *driveWorld) runSparse(maxN int) {
	p := utreexo.NewAccumulator()
	w.insts = []*Inst{
		{Name: "pollard", Kind: KPollard, P: &p},
		{Name: "map.full.63", Kind: KMapFull, Rows: 63, M: newMap(true, 63)},
		{Name: "map.full.0", Kind: KMapFull, Rows: 0, M: newMap(true, 0)},
		{Name: "map.part.63", Kind: KMapPart, Rows: 63, M: newMap(false, 63), cached: map[int]bool{}},
		{Name: "map.part.0", Kind: KMapPart, Rows: 0, M: newMap(false, 0), cached: map[int]bool{}},
	}
	w.emit(newEv("reset", w.h, w.i))
	w.flush()
	r := 8 + w.rng.Intn(2)
	if w.h%4 == 3 {
		// every fourth history: a subtree 12 rows tall (TLC then only judges the roots;
		// positions and proofs of the partial forests are compared with the full forests)
		r = 12
		w.sparseTall = true
	}
	sz := 1 << r
	nblk := 2 + w.rng.Intn(2)
	n0 := sz*nblk + w.rng.Intn(sz)
	if n0 > maxN {
		n0 = maxN
	}
	a := w.rng.Intn(nblk)
	lo := a * sz
	keep := lo + w.rng.Intn(sz)
	if w.rng.Intn(3) == 0 {
		keep = lo // the leftmost leaf (its path never changes side)
	}
	remember := map[int]bool{}
	for _, s := range []int{lo - 1, lo + sz, lo + sz + 1, n0 - 1, 0, lo + sz + sz/2, lo - sz/2} {
		if s >= 0 && s < n0 {
			remember[s] = true
		}
	}
	for j := 0; j < 6; j++ {
		remember[w.rng.Intn(n0)] = true
	}
	// about two hundred remembered leaves in another part of the forest, to be pruned in one call later
	var many []int
	for s := 0; s < n0 && len(many) < 200; s++ {
		if (s < lo-2 || s >= lo+sz+2) && s%2 == 1 && !remember[s] {
			many = append(many, s)
			remember[s] = true
		}
	}
	rem := func(s int) bool { return remember[s] || s >= n0 && s%5 == 0 }
	step := func(d []int, k int) bool {
		w.script = &scriptedBlock{d: d, k: k, rem: rem, light: true}
		w.block(maxN)
		w.script = nil
		if len(w.fails) > 0 {
			return false
		}
		w.observeSparse()
		return len(w.fails) == 0
	}
	pan := protect(func() {
		// 1. the forest
		if !step(nil, n0) {
			return
		}
		// 2. the aligned block except one leaf: that leaf moves up r rows
		var d []int
		for s := lo; s < lo+sz; s++ {
			if s != keep {
				d = append(d, s)
			}
		}
		if !step(d, w.rng.Intn(3)) {
			return
		}
		// 3. the last leaf of the block: its tall sibling moves up, or the tree is empty;
		//    undone (the tall subtree moves back down) and applied again
		if !step([]int{keep}, 0) {
			return
		}
		w.undo()
		if len(w.fails) > 0 {
			return
		}
		w.observeSparse()
		if len(w.fails) > 0 || !step([]int{keep}, 0) {
			return
		}
		// 4. additions up to and beyond the next multiple of the block size; undone and applied again
		k := (sz-int(w.n)%sz)%sz + 1 + w.rng.Intn(4)
		if int(w.n)+k > maxN+sz {
			k = 3
		}
		if !step(nil, k) {
			return
		}
		w.undo()
		if len(w.fails) > 0 {
			return
		}
		w.observeSparse()
		if len(w.fails) > 0 || !step(nil, k) {
			return
		}
		// 4b. one Prune call for about two hundred remembered leaves (and a hash that is not remembered)
		{
			var ps []int
			for _, s := range many {
				if w.live[s] {
					ps = append(ps, s)
				}
			}
			if len(ps) > 0 {
				ps = append(ps, n0-2)
				for _, in := range w.insts {
					if in.Kind != KMapPart {
						continue
					}
					if err := in.M.Prune(w.hashes(ps)); err != nil {
						w.fail([]string{"C09"}, in.Name, "error", fmt.Sprintf("Prune of %d hashes failed: %v", len(ps), err))
						return
					}
					w.calls++
					w.pop(in, "prune", ps)
				}
				w.observeSparse()
				if len(w.fails) > 0 {
					return
				}
			}
		}
		// 5. some remembered leaves go
		d = w.someCached(3)
		if !step(d, w.rng.Intn(5)) {
			return
		}
		// 6. undo and a different block
		w.undo()
		if len(w.fails) > 0 {
			return
		}
		w.observeSparse()
		if len(w.fails) > 0 {
			return
		}
		step(w.someCached(2), 2+w.rng.Intn(3))
	})
	if pan != "" {
		w.fail([]string{"C01"}, "", "panic", "the library panicked: "+pan)
	}
	w.flush()
}

// someCached: up to k live leaves the first partial forest remembers.
func (w *driveWorld) someCached(k int) []int {
	var c []int
	for s := range w.insts[3].cached {
		if w.live[s] {
			c = append(c, s)
		}
	}
	sort.Ints(c)
	w.rng.Shuffle(len(c), func(a, b int) { c[a], c[b] = c[b], c[a] })
	if len(c) > k {
		c = c[:k]
	}
	sort.Ints(c)
	return c
}

// observeSparse: roots of every instance, positions and stored nodes of the
// partial forests, proofs of a few remembered leaves.
func (w *driveWorld) observeSparse() {
	sr, sn := append([]Hash{}, w.stump.Roots...), w.stump.NumLeaves
	w.emitLazy(func(e *driveEvent) { e.Inst, e.N, e.Roots = "stump", sn, w.sy.Ts(sr) }, "roots")
	R := treeRows(w.n)
	for _, in := range w.insts {
		name, nl, rs := in.Name, in.numLeaves(), append([]Hash{}, in.roots()...)
		w.emitLazy(func(e *driveEvent) { e.Inst, e.N, e.Roots = name, nl, w.sy.Ts(rs) }, "roots")
		if in.Kind != KMapPart {
			continue
		}
		// the partial forest against the full one (same blocks): position and proof of every
		// remembered live leaf
		full := w.insts[1]
		var cs []int
		for s := range in.cached {
			if w.live[s] {
				cs = append(cs, s)
			}
		}
		sort.Ints(cs)
		if len(cs) > 40 {
			cs = append(cs[:20], cs[len(cs)-20:]...)
		}
		for _, s := range cs {
			h := w.sy.H(leafTerm(s))
			pp, fp := in.M.GetLeafPosition(h)
			pf, ff := full.M.GetLeafPosition(h)
			if !fp || !ff || pp != pf {
				w.fail([]string{"C09", "C10", "C06"}, in.Name, "leafpos", fmt.Sprintf("GetLeafPosition(L%d) = (%d, %v), the full forest says (%d, %v) [%d leaves]", s, pp, fp, pf, ff, w.n))
				return
			}
			a, ea := in.M.Prove([]Hash{h})
			b, eb := full.M.Prove([]Hash{h})
			same := ea == nil && eb == nil && eqU64s(a.Targets, b.Targets) && len(a.Proof) == len(b.Proof)
			for i := 0; same && i < len(a.Proof); i++ {
				same = a.Proof[i] == b.Proof[i]
			}
			if !same {
				w.fail([]string{"C09", "C02", "C06"}, in.Name, "prove", fmt.Sprintf("the proof of the remembered leaf L%d differs from the full forest's (errors: %v / %v) [%d leaves]", s, ea, eb, w.n))
				return
			}
			w.calls += 4
		}
		if w.sparseTall {
			continue
		}
		pe := newEv("pos", w.h, w.i)
		pe.Inst, pe.Partial = in.Name, true
		for s := 0; s < int(w.n); s++ {
			pos, found := in.M.GetLeafPosition(w.sy.H(leafTerm(s)))
			w.calls++
			if !found {
				if in.cached[s] && w.live[s] {
					w.fail([]string{"C10", "C09"}, in.Name, "leafpos.found", "GetLeafPosition does not find the remembered live leaf L"+strconv.Itoa(s))
					return
				}
				continue
			}
			ri, ok := dec(pos, R)
			if !ok {
				ri = RI{255, pos}
			}
			pe.Pos = append(pe.Pos, [3]uint64{uint64(s), uint64(ri.Row), ri.Idx})
		}
		w.emit(pe)
		w.dumpStored(in)
	}
	if !w.sparseTall {
		w.proveSome()
	}
	w.flush()
}

// runLightChain (driver option big=3): scripted histories for a light client that holds
// dozens of leaves in a forest whose low trees are emptied and then overwritten in a
// chain by the next additions (several empty roots destroyed by one block), followed by
// Undo and another block.  Every observation is judged by TLC (CoreTrace: roots, what the
// client holds and its proof).
func (w *driveWorld) runLightChain(maxN int) {
	p := utreexo.NewAccumulator()
	w.insts = []*Inst{
		{Name: "pollard", Kind: KPollard, P: &p},
		{Name: "map.full.63", Kind: KMapFull, Rows: 63, M: newMap(true, 63)},
	}
	w.lcBroken = false
	w.remHigh = true
	w.emit(newEv("reset", w.h, w.i))
	w.flush()
	// leaf count: one big tree and three or four low trees
	a := 6 + w.rng.Intn(2)
	n0 := 1<<a + 1
	var lows []int
	for h := a - 1; h >= 1; h-- {
		if len(lows) < 3 && (w.rng.Intn(2) == 0 || h <= 2) {
			lows = append(lows, h)
			n0 += 1 << h
		}
	}
	step := func(d []int, k int) bool {
		w.script = &scriptedBlock{d: d, k: k, lcRem: func(s int) bool { return s == 0 || s == n0-1 || s == 1<<a }}
		w.block(maxN + 64)
		w.script = nil
		if len(w.fails) > 0 {
			return false
		}
		w.observe()
		w.holdEvent()
		w.flush()
		return len(w.fails) == 0
	}
	pan := protect(func() {
		if !step(nil, n0) {
			return
		}
		// some leaves of the big tree go: their neighbours move up (held positions on higher rows)
		var d []int
		for s := 0; s < 1<<a; s++ {
			if w.rng.Intn(9) == 0 || (s > 0 && s < 4) {
				d = append(d, s)
			}
		}
		// (in every other history these deletions are part of the next block instead)
		var together []int
		if w.h%2 == 0 {
			together = d
		} else if !step(d, 0) {
			return
		}
		// every leaf of the low trees except the last one-leaf tree goes, one or two leaves are added:
		// the additions run over a chain of empty roots
		d = append([]int{}, together...)
		for s := 1 << a; s < n0-1; s++ {
			d = append(d, s)
		}
		if !step(d, 1+w.rng.Intn(2)) {
			return
		}
		w.undo()
		if len(w.fails) > 0 {
			return
		}
		w.observe()
		w.holdEvent()
		w.flush()
		if len(w.fails) > 0 {
			return
		}
		// the same deletions with other additions, then an ordinary block and its undo
		if !step(d, 3+w.rng.Intn(3)) {
			return
		}
		if !step(w.chooseDeletions(), w.rng.Intn(6)) {
			return
		}
		w.undo()
		if len(w.fails) > 0 {
			return
		}
		w.observe()
		w.holdEvent()
		w.flush()
	})
	if pan != "" {
		w.fail([]string{"C01"}, "", "panic", "the library panicked: "+pan)
	}
	w.flush()
}
