package main

// World: the instance matrix a behaviour is replayed on, the call monitor
// (C17) and the comparison of observations with the specification's
// expectation.

import (
	"fmt"
	"hash/fnv"
	"os"
	"runtime/debug"
	"sort"
	"strings"

	"github.com/utreexo/utreexo"
)

type Kind int

const (
	KStump Kind = iota
	KPollard
	KMapFull
	KMapPart
)

type Inst struct {
	Name     string
	Kind     Kind
	Rows     uint8 // configured TotalRows of a map forest
	bufReuse bool  // arguments of consecutive calls share their backing arrays (see reuseH/reuseU)
	poolH    map[string][]Hash
	poolU    map[string][]uint64
	nohash   bool // a full map forest that is given targets-only proofs for its own blocks and their undo

	S utreexo.Stump
	P *utreexo.Pollard
	M *utreexo.MapPollard

	// partial map forest: the slots it was asked to remember and has not
	// deleted since (harness-side bookkeeping of the requests it made)
	cached     map[int]bool
	stumpStack []utreexo.Stump
}

func (in *Inst) isMap() bool    { return in.Kind == KMapFull || in.Kind == KMapPart }
func (in *Inst) isProver() bool { return in.Kind != KStump }

func (in *Inst) roots() []Hash {
	switch in.Kind {
	case KStump:
		return in.S.Roots
	case KPollard:
		return in.P.GetRoots()
	default:
		return in.M.GetRoots()
	}
}

func (in *Inst) numLeaves() uint64 {
	switch in.Kind {
	case KStump:
		return in.S.NumLeaves
	case KPollard:
		return in.P.GetNumLeaves()
	default:
		return in.M.GetNumLeaves()
	}
}

func (in *Inst) acc() utreexo.Utreexo {
	if in.Kind == KPollard {
		return in.P
	}
	return in.M
}

func copyCached(m map[int]bool) map[int]bool {
	c := make(map[int]bool, len(m))
	for k, v := range m {
		c[k] = v
	}
	return c
}

// Fail is one discrepancy between the code and the specification.
type Fail struct {
	Props []string `json:"props"`
	Inst  string   `json:"inst"`
	Cat   string   `json:"cat"`
	What  string   `json:"what"`
	Exp   any      `json:"exp,omitempty"`
	Got   any      `json:"got,omitempty"`
	Step  int      `json:"step"`
	Case  *AdvCase `json:"case,omitempty"`
}

type World struct {
	sy    *Symb
	insts []*Inst
	n     uint64 // leaves ever added, following the steps
	nStk  []uint64
	seed  uint64
	fails []Fail
	ctx   map[string]bool // properties the behaviour so far additionally exercises
	stepI int
	mon   *Monitor
	calls int
	// the (non-canonical) encoding of the last block was not accepted by
	// Verify: nothing is claimed for it and the behaviour stops there
	encRejected bool
	// serial mode (C13): fault enumeration at every restore step
	serial    bool
	nserial   int
	histSoFar []Step
	// hash reuse (variant runs): the leaf added into slot s carries the hash of the dead leaf of slot reuse[s]
	reuse map[int]int
	baStk []blockArgs // the arguments of the blocks applied so far (for Undo)
	// lifted replay (light-client family): the forest sits on top of liftM*2^liftS live leaves
	// whose trees are opaque roots (see lift.go); 0 = not lifted
	liftM    uint64
	highT    []string
	undoEnc  int
	lockLeft bool // a refused call left a lock behind (partial family): the instance is unusable
	pcached  map[int]bool
	evlog    func(any)
}

func rowsFor(tier string) []uint8 {
	if tier == "thorough" {
		rs := make([]uint8, 0, 64)
		for r := 0; r <= 63; r++ {
			rs = append(rs, uint8(r))
		}
		return rs
	}
	return []uint8{0, 1, 2, 3, 4, 7, 50, 62, 63}
}

func newMap(full bool, rows uint8) *utreexo.MapPollard {
	m := utreexo.NewMapPollard(full)
	m.TotalRows = rows
	return &m
}

type WorldCfg struct {
	Rows    []uint8
	Seed    uint64
	Stump   bool
	Pollard bool
	MapFull bool
	MapPart bool
}

func NewWorld(sy *Symb, c WorldCfg) *World {
	w := &World{sy: sy, seed: c.Seed, ctx: map[string]bool{}}
	w.mon = &Monitor{w: w}
	if c.Stump {
		w.insts = append(w.insts, &Inst{Name: "stump", Kind: KStump})
	}
	if c.Pollard {
		p := utreexo.NewAccumulator()
		w.insts = append(w.insts, &Inst{Name: "pollard", Kind: KPollard, P: &p})
	}
	// the same forests on storage back-ends that are not the library's own maps
	if c.MapFull {
		w.insts = append(w.insts, &Inst{Name: "map.full.63.custom", Kind: KMapFull, Rows: 63, M: newMapCustom(true, 63)},
			&Inst{Name: "map.full.0.custom", Kind: KMapFull, Rows: 0, M: newMapCustom(true, 0)},
			// a full forest needs no proof hashes for its own blocks: Modify and Undo are given the targets only
			&Inst{Name: "map.full.63.nohash", Kind: KMapFull, Rows: 63, M: newMap(true, 63), nohash: true},
			&Inst{Name: "map.full.0.nohash", Kind: KMapFull, Rows: 0, M: newMap(true, 0), nohash: true})
	}
	if c.MapPart {
		w.insts = append(w.insts, &Inst{Name: "map.part.63.reuse", Kind: KMapPart, Rows: 63, M: newMap(false, 63), cached: map[int]bool{}, bufReuse: true})
		w.insts = append(w.insts, &Inst{Name: "map.part.63.custom", Kind: KMapPart, Rows: 63, M: newMapCustom(false, 63), cached: map[int]bool{}},
			&Inst{Name: "map.part.0.custom", Kind: KMapPart, Rows: 0, M: newMapCustom(false, 0), cached: map[int]bool{}})
	}
	for _, r := range c.Rows {
		if c.MapFull {
			w.insts = append(w.insts, &Inst{Name: fmt.Sprintf("map.full.%d", r), Kind: KMapFull, Rows: r, M: newMap(true, r)})
		}
		if c.MapPart {
			w.insts = append(w.insts, &Inst{Name: fmt.Sprintf("map.part.%d", r), Kind: KMapPart, Rows: r, M: newMap(false, r), cached: map[int]bool{}})
		}
	}
	return w
}

func (w *World) fail(props []string, in *Inst, cat, what string, exp, got any) {
	name := ""
	if in != nil {
		name = in.Name
	}
	ps := append([]string{}, props...)
	for p := range w.ctx {
		if !ctxCats[catClass(cat)] || cat == "gethash.alias" {
			break
		}
		dup := false
		for _, q := range ps {
			if q == p {
				dup = true
			}
		}
		if !dup {
			ps = append(ps, p)
		}
	}
	sort.Strings(ps)
	w.fails = append(w.fails, Fail{Props: ps, Inst: name, Cat: cat, What: what, Exp: exp, Got: got, Step: w.stepI})
}

// categories of observations that also count for the properties a behaviour
// additionally exercises (C06 after an undo, C13 after a restore, C05 for a
// non-canonical encoding)
var ctxCats = map[string]bool{"roots": true, "numleaves": true, "leafpos": true, "gethash": true,
	"count": true, "leafhashpositions": true, "prove": true, "verify": true, "panic": true, "error": true,
	"stored": true, "cached": true}

func catClass(cat string) string {
	for i := 0; i < len(cat); i++ {
		if cat[i] == '.' {
			return cat[:i]
		}
	}
	return cat
}

// remember flag of an added leaf on partial instances: a fixed pseudo-random
// function of (seed, slot)
func (w *World) remFlag(slot int) bool {
	h := fnv.New64a()
	fmt.Fprintf(h, "%d/%d", w.seed, slot)
	return h.Sum64()&1 == 1
}

func (w *World) encTargets(ts []JPos, R uint8) []uint64 {
	out := make([]uint64, len(ts))
	for i, t := range ts {
		out[i] = w.encR(t.RI(), R)
	}
	return out
}

// reuseH / reuseU hand out the same backing array for every argument of a given name and length
func (in *Inst) reuseH(name string, src []Hash) []Hash {
	if in.poolH == nil {
		in.poolH = map[string][]Hash{}
	}
	k := fmt.Sprintf("%s/%d", name, len(src))
	b := in.poolH[k]
	if b == nil {
		b = make([]Hash, len(src))
		in.poolH[k] = b
	}
	copy(b, src)
	return b
}

func (in *Inst) reuseU(name string, src []uint64) []uint64 {
	if in.poolU == nil {
		in.poolU = map[string][]uint64{}
	}
	k := fmt.Sprintf("%s/%d", name, len(src))
	b := in.poolU[k]
	if b == nil {
		b = make([]uint64, len(src))
		in.poolU[k] = b
	}
	copy(b, src)
	return b
}

// rows, encR, big: tree rows, position numbers and leaf counts of the (possibly lifted) forest
func (w *World) rows(n uint64) uint8 { return treeRows(w.big(n)) }
func (w *World) big(n uint64) uint64 { return n + w.liftM<<liftS }
func (w *World) encR(p RI, R uint8) uint64 {
	if w.liftM > 0 {
		p = RI{p.Row, p.Idx + w.liftM<<(liftS-uint(p.Row))}
	}
	return enc(p, R)
}
func (w *World) withHigh(roots []string) []string {
	if w.liftM == 0 {
		return roots
	}
	return append(append([]string{}, w.highT...), roots...)
}

// slotHash is the hash of the leaf inserted into slot s.
func (w *World) slotHash(s int) Hash {
	if d, ok := w.reuse[s]; ok {
		return w.sy.H(leafTerm(d))
	}
	return w.sy.H(leafTerm(s))
}

func (w *World) leafHashes(slots []int) []Hash {
	out := make([]Hash, len(slots))
	for i, s := range slots {
		out[i] = w.slotHash(s)
	}
	return out
}

func eqStrs(a, b []string) bool {
	if len(a) != len(b) {
		return false
	}
	for i := range a {
		if a[i] != b[i] {
			return false
		}
	}
	return true
}

func eqU64s(a, b []uint64) bool {
	if len(a) != len(b) {
		return false
	}
	for i := range a {
		if a[i] != b[i] {
			return false
		}
	}
	return true
}

// protect runs f and converts a panic into an error string.  Only a panic that
// originates in the library is turned into a finding: when the frame that
// panicked belongs to the harness itself, that is a defect of the machinery
// and the process stops with exit code 4 (an infrastructure error, never a
// verdict).
func protect(f func()) (panicked string) {
	defer func() {
		if r := recover(); r != nil {
			stack := string(debug.Stack())
			if origin := panicOrigin(stack); strings.HasPrefix(origin, "main.") {
				fmt.Fprintf(os.Stderr, "HARNESS PANIC (defect of the verification harness, not of the library): %v\n%s\n", r, stack)
				os.Exit(4)
			}
			panicked = fmt.Sprint(r)
		}
	}()
	f()
	return ""
}

// panicOrigin returns the function of the first frame below the panic call
// that is not part of the Go runtime.
func panicOrigin(stack string) string {
	lines := strings.Split(stack, "\n")
	seenPanic := false
	for _, l := range lines {
		if strings.HasPrefix(l, "\t") || l == "" {
			continue
		}
		if strings.HasPrefix(l, "panic(") {
			seenPanic = true
			continue
		}
		if !seenPanic || strings.HasPrefix(l, "runtime.") || strings.HasPrefix(l, "runtime/") {
			continue
		}
		return l
	}
	return ""
}

// hashIsLive: the hash of the (dead) leaf of slot s is carried by a live leaf in another slot.
func (w *World) hashIsLive(s int, livePos map[int]RI) bool {
	for s2, d := range w.reuse {
		if d == s {
			if _, ok := livePos[s2]; ok {
				return true
			}
		}
	}
	return false
}

// checkRoots compares leaf count and roots of every instance (C01).
func (w *World) checkRoots(expRoots []string, props ...string) {
	if len(props) == 0 {
		props = []string{"C01"}
	}
	for _, in := range w.insts {
		var got []string
		var gn uint64
		if p := protect(func() { got = w.sy.Ts(in.roots()); gn = in.numLeaves() }); p != "" {
			w.fail(props, in, "panic", "GetRoots/GetNumLeaves: "+p, nil, nil)
			continue
		}
		if gn != w.n {
			w.fail(props, in, "numleaves", "leaf count", w.n, gn)
		}
		if !eqStrs(got, expRoots) {
			w.fail(props, in, "roots", "roots", expRoots, got)
		}
	}
}

// ---------------------------------------------------------------------------
// Block application
// ---------------------------------------------------------------------------

type blockArgs struct {
	bad     string // the encoding could not be constructed
	dels    []Hash
	adds    []Hash
	targets []uint64
	proof   []Hash
	enc     bool // a non-canonical encoding of the block proof
}

func (w *World) blockArgs(st *Step) blockArgs {
	R := w.rows(w.n)
	ba := blockArgs{
		dels:    w.leafHashes(st.D),
		targets: w.encTargets(st.Pf.T, R),
		proof:   w.sy.Hs(st.Pf.P),
	}
	for i := 0; i < st.K; i++ {
		ba.adds = append(ba.adds, w.slotHash(int(w.n)+i))
	}
	if st.Enc != nil {
		for j := 0; j < st.Enc.Junk; j++ {
			ba.proof = append(ba.proof, w.sy.H(junkTerm(100+j)))
		}
		mk := func(p *JProof) utreexo.Proof {
			return utreexo.Proof{Targets: w.encTargets(p.T, R), Proof: w.sy.Hs(p.P)}
		}
		switch st.Enc.Kind {
		case "addproof":
			// the block proof is assembled by the real AddProof from two canonical proofs
			pan := protect(func() {
				hs, pr := utreexo.AddProof(mk(st.Enc.Pa), mk(st.Enc.Pb), w.leafHashes(st.Enc.A), w.leafHashes(st.Enc.B), w.n)
				ba.dels, ba.targets, ba.proof = hs, pr.Targets, pr.Proof
			})
			if pan != "" {
				ba.bad = "AddProof panicked: " + pan
			}
		case "subset":
			// the block proof is cut out of a bigger canonical proof by the real GetProofSubset
			pan := protect(func() {
				hs, pr, err := utreexo.GetProofSubset(mk(st.Enc.Psup), w.leafHashes(st.Enc.Sup), ba.targets, w.n)
				if err != nil {
					ba.bad = "GetProofSubset failed: " + err.Error()
					return
				}
				ba.dels, ba.targets, ba.proof = hs, pr.Targets, pr.Proof
			})
			if pan != "" {
				ba.bad = "GetProofSubset panicked: " + pan
			}
		}
	}
	return ba
}

// applyMod applies a block to every instance.
func (w *World) applyMod(st *Step) {
	ba := w.blockArgs(st)
	if st.Enc != nil && st.Enc.Kind != "canon" {
		// C05 is conditional on the stand-alone verifier accepting this encoding
		accepted := ba.bad == ""
		if accepted {
			for _, in := range w.insts {
				if in.Kind == KStump {
					s := utreexo.Stump{Roots: append([]Hash{}, in.S.Roots...), NumLeaves: in.S.NumLeaves}
					pan := protect(func() {
						_, err := utreexo.Verify(s, ba.dels, utreexo.Proof{Targets: ba.targets, Proof: ba.proof})
						accepted = err == nil
					})
					if pan != "" {
						accepted = false
					}
				}
			}
		}
		if !accepted {
			w.encRejected = true
			return
		}
	}
	for _, in := range w.insts {
		in := in
		g := w.mon.begin(in, "mod")
		dels := g.H("delHashes", ba.dels)
		tg := g.U("proof.Targets", ba.targets)
		pf := g.H("proof.Proof", ba.proof)
		proof := utreexo.Proof{Targets: tg, Proof: pf}
		var err error
		var ud utreexo.UpdateData
		pan := protect(func() {
			switch in.Kind {
			case KStump:
				in.stumpStack = append(in.stumpStack, utreexo.Stump{Roots: append([]Hash{}, in.S.Roots...), NumLeaves: in.S.NumLeaves})
				adds := g.H("addHashes", ba.adds)
				ud, err = in.S.Update(dels, adds, proof)
			case KPollard, KMapFull:
				leaves := make([]utreexo.Leaf, len(ba.adds))
				for i, a := range ba.adds {
					leaves[i] = utreexo.Leaf{Hash: a}
				}
				adds := g.L("adds", leaves)
				if in.nohash {
					// (an empty slice whose spare capacity is the caller's)
					proof = utreexo.Proof{Targets: tg, Proof: g.H("proof.Proof (no hashes)", nil)}
				}
				err = in.acc().Modify(adds, dels, proof)
			case KMapPart:
				// a partial forest can only delete what it has cached:
				// verify the deletions with remember first
				err = in.M.Verify(dels, proof, true)
				if err != nil {
					err = fmt.Errorf("Verify(remember): %v", err)
					return
				}
				leaves := make([]utreexo.Leaf, len(ba.adds))
				for i, a := range ba.adds {
					rem := w.remFlag(int(w.n) + i)
					leaves[i] = utreexo.Leaf{Hash: a, Remember: rem}
				}
				adds := g.L("adds", leaves)
				err = in.M.Modify(adds, dels, proof)
				for _, s := range st.D {
					delete(in.cached, s)
				}
				for i := range leaves {
					if leaves[i].Remember {
						in.cached[int(w.n)+i] = true
					}
				}
			}
		})
		g.end()
		if pan != "" {
			w.fail([]string{"C01"}, in, "panic", "block application panicked: "+pan, nil, nil)
			continue
		}
		if err != nil {
			w.fail([]string{"C01"}, in, "error", "block application failed: "+err.Error(), nil, nil)
			continue
		}
		if in.Kind == KStump && st.Upd != nil {
			w.checkUpdateData(in, st, &ud)
			w.mon.retainUpd(in, "UpdateData", &ud)
		}
	}
	w.nStk = append(w.nStk, w.n)
	w.n += uint64(st.K)
	ba.enc = st.Enc != nil && st.Enc.Kind != "canon"
	w.baStk = append(w.baStk, ba)
}

func (w *World) checkUpdateData(in *Inst, st *Step, ud *utreexo.UpdateData) {
	props := []string{"C11"}
	Rpre := w.rows(st.Upd.Prev)
	Rpost := w.rows(st.Upd.Prev + uint64(st.K))
	if ud.PrevNumLeaves != w.big(st.Upd.Prev) {
		w.fail(props, in, "upd.prev", "PrevNumLeaves", w.big(st.Upd.Prev), ud.PrevNumLeaves)
	}
	expTd := w.encTargets(st.Upd.Td, Rpost)
	if !eqU64s(expTd, ud.ToDestroy) {
		w.fail(props, in, "upd.todestroy", "ToDestroy", expTd, ud.ToDestroy)
	}
	type ph struct {
		Pos  uint64
		Hash string
	}
	conv := func(ps []PosHash, R uint8) []ph {
		out := make([]ph, len(ps))
		for i, p := range ps {
			out[i] = ph{w.encR(p.RI(), R), p.Hash}
		}
		return out
	}
	zip := func(pos []uint64, hs []Hash) []ph {
		out := make([]ph, 0, len(pos))
		for i := range pos {
			t := "?missing"
			if i < len(hs) {
				t = w.sy.T(hs[i])
			}
			out = append(out, ph{pos[i], t})
		}
		for i := len(pos); i < len(hs); i++ {
			out = append(out, ph{^uint64(0), w.sy.T(hs[i])})
		}
		return out
	}
	eq := func(a, b []ph) bool {
		if len(a) != len(b) {
			return false
		}
		for i := range a {
			if a[i] != b[i] {
				return false
			}
		}
		return true
	}
	expDel := conv(st.Upd.Ndel, Rpre)
	gotDel := zip(ud.NewDelPos, ud.NewDelHash)
	if !eq(expDel, gotDel) {
		w.fail(props, in, "upd.newdel", "NewDelPos/NewDelHash", expDel, gotDel)
	}
	expAdd := conv(st.Upd.Nadd, Rpost)
	gotAdd := zip(ud.NewAddPos, ud.NewAddHash)
	if !eq(expAdd, gotAdd) {
		w.fail(props, in, "upd.newadd", "NewAddPos/NewAddHash", expAdd, gotAdd)
	}
}

// applyUndo undoes the last block on every forest instance.
func (w *World) applyUndo(st *Step) {
	if len(w.nStk) == 0 {
		panic("undo without block")
	}
	prevN := w.nStk[len(w.nStk)-1]
	w.nStk = w.nStk[:len(w.nStk)-1]
	R := treeRows(prevN)
	dels := w.leafHashes(st.D)
	targets := w.encTargets(st.Pf.T, R)
	proofH := w.sy.Hs(st.Pf.P)
	prevRoots := w.sy.Hs(st.Pre)
	w.ctx["C06"] = true
	if len(w.baStk) > 0 {
		// a block that was applied in a non-canonical (accepted) encoding of its proof is
		// undone with that very encoding: "that block's proof"
		ba := w.baStk[len(w.baStk)-1]
		w.baStk = w.baStk[:len(w.baStk)-1]
		if ba.enc {
			dels, targets, proofH = ba.dels, ba.targets, ba.proof
			w.undoEnc++
		}
	}
	for _, in := range w.insts {
		in := in
		if in.Kind == KStump {
			// a roots-only verifier is rolled back by restoring its saved value
			in.S = in.stumpStack[len(in.stumpStack)-1]
			in.stumpStack = in.stumpStack[:len(in.stumpStack)-1]
			continue
		}
		g := w.mon.begin(in, "undo")
		dh := g.H("delHashes", dels)
		tg := g.U("proof.Targets", targets)
		pf := g.H("proof.Proof", proofH)
		pr := g.H("prevRoots", prevRoots)
		var err error
		pan := protect(func() {
			up := utreexo.Proof{Targets: tg, Proof: pf}
			if in.nohash {
				up = utreexo.Proof{Targets: tg, Proof: g.H("proof.Proof (no hashes)", nil)}
			}
			err = in.acc().Undo(uint64(st.K), up, dh, pr)
		})
		g.end()
		if in.Kind == KMapPart {
			// the leaves the undone block added are gone; the leaves it deleted
			// were cached when they were deleted and come back cached; whatever
			// was remembered since stays remembered
			for s := range in.cached {
				if uint64(s) >= prevN {
					delete(in.cached, s)
				}
			}
			for _, s := range st.D {
				in.cached[s] = true
			}
		}
		if pan != "" {
			w.fail([]string{"C06"}, in, "panic", "Undo panicked: "+pan, nil, nil)
			continue
		}
		if err != nil {
			w.fail([]string{"C06"}, in, "error", "Undo failed: "+err.Error(), nil, nil)
		}
	}
	w.n = prevN
}

// ---------------------------------------------------------------------------
// Full observation (C10, and C06/C13 through the context)
// ---------------------------------------------------------------------------

func (w *World) fullCompare(exp *Expect) {
	R := treeRows(exp.N)
	nodeAt := map[RI]string{}
	internal := []string{}
	for _, nd := range exp.Nodes {
		nodeAt[nd.RI()] = nd.Hash
	}
	livePos := map[int]RI{}
	for _, lf := range exp.Leaves {
		livePos[int(lf[0])] = RI{uint8(lf[1]), lf[2]}
	}
	for _, nd := range exp.Nodes {
		if len(nd.Hash) > 0 && nd.Hash[0] == '(' {
			internal = append(internal, nd.Hash)
		}
	}
	var maxPos uint64 = (uint64(1) << (uint(R) + 1)) + 4
	for _, in := range w.insts {
		if !in.isProver() {
			continue
		}
		in := in
		a := in.acc()
		partial := in.Kind == KMapPart
		pan := protect(func() {
			// a full map forest stores exactly the nodes of the forest and the empty roots of its dead trees
			// (an entry left behind where the forest has no node is invisible to every read - it holds the
			// empty hash - until a later move lands it on a live node)
			if in.Kind == KMapFull && w.reuse == nil {
				T := in.M.TotalRows
				stored := map[RI]string{}
				in.M.Nodes.ForEach(func(pos uint64, lf utreexo.Leaf) error {
					ri, ok := dec(pos, T)
					if !ok {
						ri = RI{255, pos}
					}
					stored[ri] = w.sy.T(lf.Hash)
					return nil
				})
				for ri, h := range stored {
					if want, ok := nodeAt[ri]; ok {
						if want != h {
							w.fail([]string{"C10"}, in, "stored.hash", fmt.Sprintf("hash stored at %v", ri), want, h)
						}
						continue
					}
					emptyRoot := h == "0" && ri.Row < 64 && exp.N>>ri.Row&1 == 1 && ri.Idx == (exp.N>>(ri.Row+1))<<1
					if !emptyRoot {
						w.fail([]string{"C10"}, in, "stored.extra", fmt.Sprintf("an entry (hash %s) is stored at %v, where the forest has no node", h, ri), nil, nil)
					}
				}
				for ri, h := range nodeAt {
					if _, ok := stored[ri]; !ok {
						w.fail([]string{"C10"}, in, "stored.missing", fmt.Sprintf("the node %s at %v is not stored by the full forest", h, ri), nil, nil)
					}
				}
			}
			// leaf look-ups: live, dead, internal, junk
			for s := 0; s < int(exp.N); s++ {
				h := w.slotHash(s)
				pos, found := a.GetLeafPosition(h)
				p, live := livePos[s]
				if !live && w.hashIsLive(s, livePos) {
					continue // this dead leaf's hash was added again and is live in another slot
				}
				tracked := live
				if partial {
					tracked = live && in.cached[s]
				}
				if found != tracked {
					w.fail([]string{"C10"}, in, "leafpos.found", fmt.Sprintf("GetLeafPosition(L%d) found", s), tracked, found)
				} else if found && pos != enc(p, R) {
					w.fail([]string{"C10"}, in, "leafpos", fmt.Sprintf("GetLeafPosition(L%d)", s), enc(p, R), pos)
				}
			}
			for _, t := range internal {
				if _, found := a.GetLeafPosition(w.sy.H(t)); found {
					w.fail([]string{"C10"}, in, "leafpos.internal", "GetLeafPosition(internal node "+t+") found", false, true)
				}
			}
			for j := 1; j <= 2; j++ {
				if _, found := a.GetLeafPosition(w.sy.H(junkTerm(j))); found {
					w.fail([]string{"C10"}, in, "leafpos.junk", "GetLeafPosition(fresh hash) found", false, true)
				}
			}
			// batch look-up on the map forest
			if in.isMap() {
				hs := make([]Hash, 0, exp.N+1)
				want := make([]uint64, 0, exp.N+1)
				for s := 0; s < int(exp.N); s++ {
					hs = append(hs, w.slotHash(s))
					p, live := livePos[s]
					cs := s
					if !live && w.hashIsLive(s, livePos) {
						// asked twice: both entries are the live slot's position
						for s2, d := range w.reuse {
							if d == s {
								if p2, ok := livePos[s2]; ok {
									p, live, cs = p2, true, s2
								}
							}
						}
					}
					if live && (!partial || in.cached[cs]) {
						want = append(want, enc(p, R))
					} else {
						want = append(want, 0)
					}
				}
				hs = append(hs, w.sy.H(junkTerm(1)))
				want = append(want, 0)
				// every hash asked a second time (and the whole request once more): a request may
				// name a hash more than once and may be longer than the number of tracked leaves
				nq := len(hs)
				for rep := 0; rep < 2; rep++ {
					for i := nq - 1; i >= 0; i-- {
						hs = append(hs, hs[i])
						want = append(want, want[i])
					}
				}
				g := w.mon.begin(in, "GetLeafHashPositions")
				arg := g.H("hashes", hs)
				got := in.M.GetLeafHashPositions(arg)
				g.end()
				if !eqU64s(got, want) {
					w.fail([]string{"C10"}, in, "leafhashpositions", "GetLeafHashPositions", want, got)
				}
			}
			// position reads
			for pos := uint64(0); pos <= maxPos; pos++ {
				want := "0"
				if ri, ok := dec(pos, R); ok {
					if t, ok := nodeAt[ri]; ok {
						want = t
					}
				}
				got := w.sy.T(a.GetHash(pos))
				if got != want && !(partial && got == "0") {
					cat := "gethash"
					if in.isMap() && want == "0" && !posInForest(pos, exp.N) {
						// the position is outside the forest; is the answer the node
						// stored where an unchecked row/offset translation of this
						// number to TotalRows coordinates lands?
						if ri2, ok := dec(aliasOf(pos, R, in.M.TotalRows), in.M.TotalRows); ok && nodeAt[ri2] == got {
							cat = "gethash.alias"
						}
					}
					w.fail([]string{"C10"}, in, cat, fmt.Sprintf("GetHash(%d)", pos), want, got)
				}
			}
			// counters
			nlive := len(exp.Leaves)
			switch in.Kind {
			case KPollard:
				if len(in.P.NodeMap) != nlive {
					w.fail([]string{"C10"}, in, "count", "len(NodeMap)", nlive, len(in.P.NodeMap))
				}
				if in.P.NumLeaves-in.P.NumDels != uint64(nlive) {
					w.fail([]string{"C10"}, in, "count", "NumLeaves-NumDels", nlive, in.P.NumLeaves-in.P.NumDels)
				}
			case KMapFull:
				if in.M.CachedLeaves.Length() != nlive {
					w.fail([]string{"C10"}, in, "count", "CachedLeaves.Length()", nlive, in.M.CachedLeaves.Length())
				}
			case KMapPart:
				c := 0
				for s := range in.cached {
					if _, ok := livePos[s]; ok {
						c++
					}
				}
				if in.M.CachedLeaves.Length() != c {
					w.fail([]string{"C10"}, in, "count", "CachedLeaves.Length()", c, in.M.CachedLeaves.Length())
				}
			}
		})
		if pan != "" {
			w.fail([]string{"C10"}, in, "panic", "look-up panicked: "+pan, nil, nil)
		}
	}
}

// ---------------------------------------------------------------------------
// Prove (C02)
// ---------------------------------------------------------------------------

func (w *World) applyProve(st *Step, exp *Expect) {
	R := treeRows(w.n)
	hashes := w.leafHashes(st.S)
	expT := w.encTargets(exp.Pf.T, R)
	expP := exp.Pf.P
	var canon *utreexo.Proof
	for _, in := range w.insts {
		if !in.isProver() {
			continue
		}
		if in.Kind == KMapPart {
			ok := true
			for _, s := range st.S {
				if !in.cached[s] {
					ok = false
				}
			}
			if !ok {
				continue
			}
		}
		in := in
		g := w.mon.begin(in, "Prove")
		arg := g.H("hashes", hashes)
		var pr utreexo.Proof
		var err error
		pan := protect(func() { pr, err = in.acc().Prove(arg) })
		g.end()
		if pan != "" {
			w.fail([]string{"C02"}, in, "panic", "Prove panicked: "+pan, nil, nil)
			continue
		}
		if err != nil {
			w.fail([]string{"C02"}, in, "prove.error", "Prove failed: "+err.Error(), nil, nil)
			continue
		}
		w.mon.retainProof(in, "Prove result", &pr)
		if !eqU64s(pr.Targets, expT) {
			w.fail([]string{"C02"}, in, "prove.targets", "Proof.Targets", expT, pr.Targets)
		}
		if got := w.sy.Ts(pr.Proof); !eqStrs(got, expP) {
			w.fail([]string{"C02"}, in, "prove.proof", "Proof.Proof", expP, got)
		}
		if canon == nil {
			c := pr
			canon = &c
		}
	}
	// the canonical proof (from the specification) must be accepted by every verifier
	sp := utreexo.Proof{Targets: expT, Proof: w.sy.Hs(expP)}
	w.verifyEverywhere(hashes, sp, exp.Trees, []string{"C02"})
}

// verifyEverywhere gives (hashes, proof) to every verifier; all must accept,
// and the stand-alone verifier must report exactly the trees `trees'
// (1-based indexes into the root list) when trees is non-nil.
func (w *World) verifyEverywhere(hashes []Hash, sp utreexo.Proof, trees []int, props []string) {
	for _, in := range w.insts {
		in := in
		g := w.mon.begin(in, "Verify")
		dh := g.H("delHashes", hashes)
		tg := g.U("proof.Targets", sp.Targets)
		pf := g.H("proof.Proof", sp.Proof)
		p := utreexo.Proof{Targets: tg, Proof: pf}
		var err error
		var idx []int
		pan := protect(func() {
			switch in.Kind {
			case KStump:
				idx, err = utreexo.Verify(in.S, dh, p)
			default:
				err = in.acc().Verify(dh, p, false)
			}
		})
		g.end()
		if pan != "" {
			w.fail(props, in, "panic", "Verify panicked: "+pan, nil, nil)
			continue
		}
		if err != nil {
			w.fail(props, in, "verify.reject", "canonical proof rejected: "+err.Error(), nil, nil)
			continue
		}
		if in.Kind == KStump && trees != nil {
			got := append([]int{}, idx...)
			sort.Ints(got)
			want := make([]int, len(trees))
			for i, t := range trees {
				want[i] = t - 1
			}
			sort.Ints(want)
			same := len(got) == len(want)
			for i := 0; same && i < len(got); i++ {
				same = got[i] == want[i]
			}
			if !same {
				w.fail(props, in, "verify.trees", "root indexes reported by Verify", want, got)
			}
		}
	}
}
