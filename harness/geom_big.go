package main

// Proof positions of large target sets (C16).  The enumerated geometry covers target
// sets of a few positions; code paths for hundreds or thousands of targets are checked
// here, once per run, against a direct transcription of spec/Forest.tla (Anc,
// ProofPosSet, Computable) over (row, idx) pairs - nothing of the code under test is
// used for the expectation.  The target sets are structured: whole rows above row 0
// (no target on the bottom row), mixed rows, every other node, in perfect and
// imperfect forests.

import (
	"fmt"
	"sort"
	"sync"

	"github.com/utreexo/utreexo"
)

var geomBigOnce sync.Once

func geomIsRoot(n uint64, p RI) bool {
	return p.Row < 64 && n>>p.Row&1 == 1 && p.Idx == (n>>(p.Row+1))<<1
}

// refProofPositions: proof positions and computable positions of the targets in a forest of n leaves
func refProofPositions(n uint64, targets []RI) (proof, comp map[RI]bool) {
	anc := map[RI]bool{}
	tset := map[RI]bool{}
	for _, t := range targets {
		tset[t] = true
		for q := t; ; q = (RI{q.Row + 1, q.Idx / 2}) {
			if anc[q] {
				break
			}
			anc[q] = true
			if geomIsRoot(n, q) {
				break
			}
		}
	}
	proof, comp = map[RI]bool{}, map[RI]bool{}
	for q := range anc {
		if !tset[q] {
			comp[q] = true
		}
		if !geomIsRoot(n, q) {
			s := RI{q.Row, q.Idx ^ 1}
			if !anc[s] {
				proof[s] = true
			}
		}
	}
	return
}

type geomBigCase struct {
	name    string
	n       uint64
	targets []RI
}

func geomBigCases() []geomBigCase {
	var cs []geomBigCase
	row := func(n uint64, r uint8, step, off uint64, max int) []RI {
		var out []RI
		for i := off; (i+1)<<r <= n && len(out) < max; i += step {
			out = append(out, RI{r, i})
		}
		return out
	}
	for _, n := range []uint64{4096, 6000, 5000 + 37} {
		cs = append(cs, geomBigCase{"every left node of row 1", n, row(n, 1, 2, 0, 1 << 20)})
		cs = append(cs, geomBigCase{"every node of row 1 with idx = 1 mod 3", n, row(n, 1, 3, 1, 1 << 20)})
		cs = append(cs, geomBigCase{"every fourth leaf", n, row(n, 0, 4, 0, 1 << 20)})
		cs = append(cs, geomBigCase{"every fifth node of row 2", n, row(n, 2, 5, 0, 1 << 20)})
		// mixed rows: leaves of the first half, row-2 nodes of the third quarter, row-4 nodes of the last quarter
		var mix []RI
		for i := uint64(0); i < n/2; i += 3 {
			mix = append(mix, RI{0, i})
		}
		for i := n/2/4 + 1; i < n*3/4/4; i += 2 { // (+1: clear of the leaves of the first half)
			mix = append(mix, RI{2, i})
		}
		for i := n*3/4/16 + 2; (i+1)<<4 <= n; i += 2 { // (+2: clear of the row-2 region)
			mix = append(mix, RI{4, i})
		}
		cs = append(cs, geomBigCase{"leaves, row-2 and row-4 nodes of disjoint regions", n, mix})
	}
	return cs
}

// geomBig runs the cases; fail receives (category, description, expected, got).
func geomBig(fail func(cat, what string, exp, got any)) int {
	calls := 0
	for _, c := range geomBigCases() {
		if len(c.targets) < 1000 || nestedTargets(c.targets) {
			continue // (a target set with a target below another one is no valid input)
		}
		wantP, wantC := refProofPositions(c.n, c.targets)
		Rn := treeRows(c.n)
		for _, RR := range []uint8{Rn, Rn + 2, 63} {
			tg := make([]uint64, len(c.targets))
			for i, t := range c.targets {
				tg[i] = enc(t, RR)
			}
			sort.Slice(tg, func(a, b int) bool { return tg[a] < tg[b] })
			var pp, comp []uint64
			pan := protect(func() { pp, comp = utreexo.ProofPositions(tg, c.n, RR) })
			calls++
			what := fmt.Sprintf("ProofPositions(%d targets: %s; %d leaves, %d rows)", len(tg), c.name, c.n, RR)
			if pan != "" {
				fail("geom.proofpositions.big", what+" panicked: "+pan, nil, nil)
				continue
			}
			var wp []uint64
			for p := range wantP {
				wp = append(wp, enc(p, RR))
			}
			sort.Slice(wp, func(a, b int) bool { return wp[a] < wp[b] })
			if !eqU64s(pp, wp) {
				fail("geom.proofpositions.big", what+": proof positions", fmt.Sprintf("%d positions, first %v", len(wp), headU64(wp)), fmt.Sprintf("%d positions, first %v", len(pp), headU64(pp)))
				continue
			}
			gotC := map[uint64]bool{}
			for _, x := range comp {
				gotC[x] = true
			}
			ok := len(gotC) == len(wantC)
			for p := range wantC {
				ok = ok && gotC[enc(p, RR)]
			}
			if !ok {
				fail("geom.proofpositions.big", what+": computable positions", len(wantC), len(gotC))
			}
		}
	}
	return calls
}

func headU64(a []uint64) []uint64 {
	if len(a) > 6 {
		return a[:6]
	}
	return a
}

func nestedTargets(ts []RI) bool {
	set := map[RI]bool{}
	for _, t := range ts {
		set[t] = true
	}
	for _, t := range ts {
		for q := (RI{t.Row + 1, t.Idx / 2}); q.Row < 40; q = (RI{q.Row + 1, q.Idx / 2}) {
			if set[q] {
				return true
			}
		}
	}
	return false
}
