package main

// Known findings: genuine defects of the code that were recorded instead of
// repaired.  The file is committed and never written at run time.  A failing
// case is attributed to a finding only when the finding's trigger predicate
// (implemented here, over the specification-level inputs of the case) holds
// and the symptom category matches; everything else is a violation.

import (
	"encoding/json"
	"os"
)

type Finding struct {
	ID       string          `json:"id"`
	Property string          `json:"property"`
	Status   string          `json:"status"` // known | fixed
	Commit   string          `json:"commit,omitempty"`
	Site     string          `json:"site"`
	Trigger  string          `json:"trigger"`
	Cats     []string        `json:"symptom_categories"`
	Symptom  string          `json:"symptom"`
	Masks    string          `json:"masks,omitempty"`
	Witness  json.RawMessage `json:"witness,omitempty"`
	WitnessFam string        `json:"witness_family,omitempty"`
}

type KnownFindings struct {
	Findings []Finding `json:"findings"`
}

func LoadKnown(path string) (*KnownFindings, error) {
	b, err := os.ReadFile(path)
	if err != nil {
		if os.IsNotExist(err) {
			return &KnownFindings{}, nil
		}
		return nil, err
	}
	var k KnownFindings
	if err := json.Unmarshal(b, &k); err != nil {
		return nil, err
	}
	return &k, nil
}

// triggers maps a trigger name to its predicate over (failure, case).
var triggers = map[string]func(f *Fail, l *Line) bool{
	"always": func(f *Fail, l *Line) bool { return true },
}

// Match returns the id of the known (unrepaired) finding that explains the
// failure f of property prop on case l, or "".
func (k *KnownFindings) Match(prop string, f *Fail, l *Line) string {
	if k == nil {
		return ""
	}
	for i := range k.Findings {
		fd := &k.Findings[i]
		if fd.Status != "known" || fd.Property != prop {
			continue
		}
		okCat := false
		for _, c := range fd.Cats {
			if c == f.Cat {
				okCat = true
			}
		}
		if !okCat {
			continue
		}
		t, ok := triggers[fd.Trigger]
		if !ok {
			continue
		}
		if t(f, l) {
			return fd.ID
		}
	}
	return ""
}
