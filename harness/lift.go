package main

// Lifted replay (family "lift").
//
// The reference semantics is invariant under putting a forest on top of full
// high trees: a forest with N = M*2^s + n leaves (n < 2^s) whose first M*2^s
// leaves form the trees of M - all of them non-empty - has, below those
// trees, exactly the trees of the forest with n leaves, every node at
// (row, idx + M*2^(s-row)), and its root list is the roots of the high trees
// followed by the roots of the small forest (spec/Lift.tla checks the
// geometric content of this on small instances).  The harness uses it to
// replay the behaviours TLC generates for small forests at leaf counts that no
// forest built leaf by leaf can reach (2^31 .. 2^62): the roots-only verifier
// and a partial map forest start from the bare roots of the high trees
// (opaque hashes), the blocks of the behaviour are applied with their targets
// shifted, and roots, update data, positions and proofs must be the shifted
// expectations.  Code that narrows a position or a leaf count to 32 bits,
// compares positions through a signed difference, or mishandles tall forests
// shows here and nowhere below 2^31 leaves.

import (
	"fmt"
	"sync"

	"github.com/utreexo/utreexo"
)

func init() {
	families["lift"] = func(r *Runner, l *Line) lineResult { return r.replayLift(l) }
}

const liftS = 4 // the small forest lives below row 4: at most 15 leaves

var liftMs = []uint64{1<<27 | 1, 1 << 28, 1<<36 + 5, 1<<58 + 1<<40 + 1, 1<<36 - 1} // (the last one: 36 high trees)

func (r *Runner) replayLift(l *Line) lineResult {
	steps := append(append([]Step{}, l.Hist...), l.Step)
	total := 0
	for i := range steps {
		if (steps[i].A != "mod" && steps[i].A != "undo") || (steps[i].Enc != nil && steps[i].Enc.Kind != "canon") || len(steps[i].Lab) > 0 {
			return lineResult{skipped: "not a block/undo history"}
		}
		if steps[i].A == "mod" {
			total += steps[i].K
		}
	}
	if total >= 1<<liftS {
		return lineResult{skipped: "too many leaves to lift"}
	}
	r.internLine(l)
	res := lineResult{insts: 2 * len(liftMs), extra: map[string]int{}}
	lc := func() {
		res.calls += longCarry(r.sy, func(props []string, inst, cat, what string, exp, got any) {
			res.fails = append(res.fails, Fail{Props: props, Inst: inst, Cat: cat, What: what, Exp: exp, Got: got, Step: len(steps) - 1})
		})
	}
	if r.one {
		lc()
	} else {
		longCarryOnce.Do(lc)
	}
	last := &l.Step
	res.nontrivial = len(last.D) > 0 || last.K > 0
	for mi, M := range liftMs {
		if !r.one && (lineHash(l.raw)+uint64(mi))%2 == 1 {
			continue // half of the (behaviour, height) pairs
		}
		fs := r.liftOne(l, steps, M)
		for i := range fs {
			fs[i].What += fmt.Sprintf(" [lifted onto %d high leaves: forest of %d + n leaves]", M<<liftS, M<<liftS)
		}
		res.fails = append(res.fails, fs...)
		res.extra["lifted_behaviours"]++
	}
	res.calls = res.extra["lifted_behaviours"] * len(steps) * 4
	return res
}

func (r *Runner) liftOne(l *Line, steps []Step, M uint64) (fails []Fail) {
	sy := r.sy
	N0 := M << liftS
	R := treeRows(N0 + (1 << liftS) - 1)
	shift := func(p RI) RI { return RI{p.Row, p.Idx + M<<(liftS-uint(p.Row))} }
	encL := func(p RI) uint64 { return enc(shift(p), R) }
	var high []Hash
	var highT []string
	for b := 63; b >= 0; b-- {
		if M>>uint(b)&1 == 1 {
			t := junkTerm(500 + b)
			high = append(high, sy.H(t))
			highT = append(highT, t)
		}
	}
	fail := func(props []string, inst, cat, what string, exp, got any, step int) {
		fails = append(fails, Fail{Props: props, Inst: inst, Cat: cat, What: what, Exp: exp, Got: got, Step: step})
	}
	stump := utreexo.Stump{Roots: append([]Hash{}, high...), NumLeaves: N0}
	mp := utreexo.NewMapPollardFromRoots(append([]Hash{}, high...), N0, false)
	n := uint64(0)
	mapOK := true
	var stumpStk []utreexo.Stump
	var nStk []uint64
	pan := protect(func() {
		for si := range steps {
			st := &steps[si]
			if st.A == "undo" {
				// the verifier state is restored from its saved value; the map forest undoes the block
				prevN := nStk[len(nStk)-1]
				nStk = nStk[:len(nStk)-1]
				stump = stumpStk[len(stumpStk)-1]
				stumpStk = stumpStk[:len(stumpStk)-1]
				n = prevN
				expRoots := append(append([]string{}, highT...), st.Post...)
				if mapOK {
					dh := make([]Hash, len(st.D))
					for i, s := range st.D {
						dh[i] = sy.H(leafTerm(s))
					}
					tg := make([]uint64, len(st.Pf.T))
					for i, t := range st.Pf.T {
						tg[i] = encL(t.RI())
					}
					prevRoots := sy.Hs(append(append([]string{}, highT...), st.Pre...))
					if err := mp.Undo(uint64(st.K), utreexo.Proof{Targets: tg, Proof: sy.Hs(st.Pf.P)}, dh, prevRoots); err != nil {
						fail([]string{"C06"}, "map.part.fromroots", "error", "Undo failed: "+err.Error(), nil, nil, si)
						mapOK = false
					} else if got := sy.Ts(mp.GetRoots()); !eqStrs(got, expRoots) || mp.GetNumLeaves() != N0+n {
						fail([]string{"C06"}, "map.part.fromroots", "roots", "roots / leaf count of the partial map forest after Undo", []any{N0 + n, expRoots}, []any{mp.GetNumLeaves(), got}, si)
						mapOK = false
					}
				}
				continue
			}
			stumpStk = append(stumpStk, utreexo.Stump{Roots: append([]Hash{}, stump.Roots...), NumLeaves: stump.NumLeaves})
			nStk = append(nStk, n)
			dels := make([]Hash, len(st.D))
			for i, s := range st.D {
				dels[i] = sy.H(leafTerm(s))
			}
			tg := make([]uint64, len(st.Pf.T))
			for i, t := range st.Pf.T {
				tg[i] = encL(t.RI())
			}
			proof := utreexo.Proof{Targets: tg, Proof: sy.Hs(st.Pf.P)}
			adds := make([]Hash, st.K)
			leaves := make([]utreexo.Leaf, st.K)
			for i := range adds {
				adds[i] = sy.H(leafTerm(int(n) + i))
				leaves[i] = utreexo.Leaf{Hash: adds[i], Remember: true}
			}
			// the stand-alone verifier accepts the shifted block proof
			if len(dels) > 0 {
				if _, err := utreexo.Verify(stump, dels, proof); err != nil {
					fail([]string{"C02"}, "stump", "verify.reject", "Verify rejects the canonical block proof: "+err.Error(), nil, nil, si)
				}
			}
			ud, err := stump.Update(dels, adds, proof)
			if err != nil {
				fail([]string{"C01"}, "stump", "error", "Stump.Update refused an honest block: "+err.Error(), nil, nil, si)
				return
			}
			expRoots := append(append([]string{}, highT...), st.Post...)
			if got := sy.Ts(stump.Roots); !eqStrs(got, expRoots) || stump.NumLeaves != N0+n+uint64(st.K) {
				fail([]string{"C01"}, "stump", "roots", "stump roots / leaf count", []any{N0 + n + uint64(st.K), expRoots}, []any{stump.NumLeaves, got}, si)
			}
			if st.Upd != nil {
				if ud.PrevNumLeaves != N0+n {
					fail([]string{"C11"}, "stump", "upd.prev", "PrevNumLeaves", N0+n, ud.PrevNumLeaves, si)
				}
				var expTd []uint64
				for _, t := range st.Upd.Td {
					expTd = append(expTd, encL(t.RI()))
				}
				if !eqU64s(expTd, ud.ToDestroy) {
					fail([]string{"C11"}, "stump", "upd.todestroy", "ToDestroy", expTd, ud.ToDestroy, si)
				}
				cmp := func(name string, exp []PosHash, pos []uint64, hs []Hash) {
					ok := len(exp) == len(pos) && len(pos) == len(hs)
					for i := 0; ok && i < len(exp); i++ {
						ok = encL(RI{exp[i].Row, exp[i].Idx}) == pos[i] && sy.T(hs[i]) == exp[i].Hash
					}
					if !ok {
						var e []any
						for _, x := range exp {
							e = append(e, []any{encL(RI{x.Row, x.Idx}), x.Hash})
						}
						fail([]string{"C11"}, "stump", "upd."+name, name+" positions/hashes", e, []any{pos, sy.Ts(hs)}, si)
					}
				}
				cmp("newdel", st.Upd.Ndel, ud.NewDelPos, ud.NewDelHash)
				cmp("newadd", st.Upd.Nadd, ud.NewAddPos, ud.NewAddHash)
			}
			if mapOK {
				var merr error
				if len(dels) > 0 {
					merr = mp.Verify(dels, proof, true)
				}
				if merr == nil {
					merr = mp.Modify(leaves, dels, proof)
				}
				if merr != nil {
					fail([]string{"C01"}, "map.part.fromroots", "error", "the partial map forest refused an honest block: "+merr.Error(), nil, nil, si)
					mapOK = false
				} else if got := sy.Ts(mp.GetRoots()); !eqStrs(got, expRoots) || mp.GetNumLeaves() != N0+n+uint64(st.K) {
					fail([]string{"C01"}, "map.part.fromroots", "roots", "roots / leaf count of the partial map forest", []any{N0 + n + uint64(st.K), expRoots}, []any{mp.GetNumLeaves(), got}, si)
					mapOK = false
				}
			}
			n += uint64(st.K)
		}
		if !mapOK {
			return
		}
		// final state: positions and single-leaf proofs of every live leaf (all are remembered)
		exp := &l.Expect
		nodeAt := map[RI]string{}
		for _, nd := range exp.Nodes {
			nodeAt[RI{nd.Row, nd.Idx}] = nd.Hash
		}
		isRoot := func(p RI) bool { return n>>p.Row&1 == 1 && p.Idx == (n>>(p.Row+1))<<1 }
		for _, lf := range exp.Leaves {
			slot, p := int(lf[0]), RI{uint8(lf[1]), lf[2]}
			h := sy.H(leafTerm(slot))
			pos, found := mp.GetLeafPosition(h)
			if !found || pos != encL(p) {
				fail([]string{"C10"}, "map.part.fromroots", "leafpos", fmt.Sprintf("GetLeafPosition(L%d)", slot), encL(p), []any{pos, found}, len(steps)-1)
				continue
			}
			var want []string
			for q := p; !isRoot(q); q = (RI{q.Row + 1, q.Idx / 2}) {
				want = append(want, nodeAt[RI{q.Row, q.Idx ^ 1}])
			}
			pr, err := mp.Prove([]Hash{h})
			if err != nil {
				fail([]string{"C02"}, "map.part.fromroots", "prove.error", fmt.Sprintf("Prove(L%d) failed: %v", slot, err), nil, nil, len(steps)-1)
				continue
			}
			if len(pr.Targets) != 1 || pr.Targets[0] != encL(p) || !eqStrs(sy.Ts(pr.Proof), want) {
				fail([]string{"C02"}, "map.part.fromroots", "prove", fmt.Sprintf("Prove(L%d)", slot), []any{encL(p), want}, []any{pr.Targets, sy.Ts(pr.Proof)}, len(steps)-1)
			} else if _, err := utreexo.Verify(stump, []Hash{h}, pr); err != nil {
				fail([]string{"C02"}, "stump", "verify.reject", fmt.Sprintf("Verify rejects the proof of L%d: %v", slot, err), nil, nil, len(steps)-1)
			}
		}
	})
	if pan != "" {
		fail([]string{"C01"}, "", "panic", "the library panicked: "+pan, nil, nil, len(steps)-1)
	}
	return fails
}

// replayLiftLight: a light-client behaviour (spec/LightClient.tla) on a lifted
// forest: the verifier state starts as the bare roots of the high trees, every
// position the client receives and holds is a shifted one.
func (r *Runner) replayLiftLight(l *Line) lineResult {
	steps := append(append([]Step{}, l.Hist...), l.Step)
	total := 0
	for i := range steps {
		if steps[i].A == "block" {
			total += steps[i].K
		}
	}
	if total >= 1<<liftS {
		return lineResult{skipped: "too many leaves to lift"}
	}
	r.internLine(l)
	res := lineResult{insts: len(liftMs), extra: map[string]int{},
		nontrivial: l.Step.A == "undoblock" || len(l.Step.D) > 0 || l.Step.K > 0}
	for mi, M := range liftMs {
		if !r.one && (lineHash(l.raw)+uint64(mi))%2 == 1 {
			continue
		}
		w := NewWorld(r.sy, WorldCfg{Seed: r.cfg.Seed})
		w.liftM = M
		lc := &lightClient{}
		for b := 63; b >= 0; b-- {
			if M>>uint(b)&1 == 1 {
				t := junkTerm(500 + b)
				lc.S.Roots = append(lc.S.Roots, r.sy.H(t))
				w.highT = append(w.highT, t)
			}
		}
		lc.S.NumLeaves = M << liftS
		in := &Inst{Name: "lightclient.lifted", Kind: KStump}
		for i := range steps {
			w.stepI = i
			st := &steps[i]
			if st.A == "block" {
				w.lightBlock(in, lc, st)
			} else {
				w.lightUndo(in, lc, st)
			}
		}
		for i := range w.fails {
			w.fails[i].What += fmt.Sprintf(" [lifted onto %d high leaves]", M<<liftS)
		}
		res.fails = append(res.fails, w.fails...)
		res.calls += w.mon.ncalls
		res.extra["lifted_behaviours"]++
	}
	return res
}

// replayPrefixRoots (family "prefixroots"): block histories with leaf values that share
// their first 12 bytes, applied to the roots-only verifier, the pointer forest and the full
// map forest; only leaf count and roots are compared.  The pointer forest keys its leaf index
// by those 12 bytes - look-ups and proofs by hash are ambiguous there by design - but the
// roots it computes for a block must not depend on that index.
func (r *Runner) replayPrefixRoots(l *Line) lineResult {
	steps := append(append([]Step{}, l.Hist...), l.Step)
	for i := range steps {
		if steps[i].A != "mod" || (steps[i].Enc != nil && steps[i].Enc.Kind != "canon") || len(steps[i].Lab) > 0 {
			return lineResult{skipped: "not a pure block history"}
		}
	}
	sy := NewSymb()
	sy.prefix = true
	res := lineResult{insts: 3, nontrivial: len(l.Step.D) > 0 || l.Step.K > 0}
	fail := func(inst, cat, what string, exp, got any, step int) {
		res.fails = append(res.fails, Fail{Props: []string{"C01", "C05"}, Inst: inst, Cat: cat, What: what + " [leaf values sharing their first 12 bytes]", Exp: exp, Got: got, Step: step})
	}
	var stump utreexo.Stump
	pol := utreexo.NewAccumulator()
	mf := newMap(true, 63)
	n := uint64(0)
	pan := protect(func() {
		for si := range steps {
			st := &steps[si]
			R := treeRows(n)
			dels := make([]Hash, len(st.D))
			for i, s := range st.D {
				dels[i] = sy.H(leafTerm(s))
			}
			tg := make([]uint64, len(st.Pf.T))
			for i, t := range st.Pf.T {
				tg[i] = enc(t.RI(), R)
			}
			proof := utreexo.Proof{Targets: tg, Proof: sy.Hs(st.Pf.P)}
			adds := make([]Hash, st.K)
			leaves := make([]utreexo.Leaf, st.K)
			for i := range adds {
				adds[i] = sy.H(leafTerm(int(n) + i))
				leaves[i] = utreexo.Leaf{Hash: adds[i]}
			}
			sy.Hs(st.Post) // names the expected roots in the dictionary of this run
			if _, err := stump.Update(dels, adds, proof); err != nil {
				fail("stump", "error", "Stump.Update refused an honest block: "+err.Error(), nil, nil, si)
				return
			}
			n += uint64(st.K)
			res.calls += 3
			for name, acc := range map[string]utreexo.Utreexo{"pollard": &pol, "map.full.63": mf} {
				if err := acc.Modify(leaves, dels, proof); err != nil {
					fail(name, "error", "Modify refused an honest block: "+err.Error(), nil, nil, si)
					return
				}
				if got := sy.Ts(acc.GetRoots()); !eqStrs(got, st.Post) || acc.GetNumLeaves() != n {
					fail(name, "roots", "roots / leaf count", []any{n, st.Post}, []any{acc.GetNumLeaves(), got}, si)
					return
				}
			}
			if got := sy.Ts(stump.Roots); !eqStrs(got, st.Post) {
				fail("stump", "roots", "stump roots", st.Post, got, si)
				return
			}
		}
	})
	if pan != "" {
		fail("", "panic", "the library panicked: "+pan, nil, nil, len(steps)-1)
	}
	return res
}

// longCarry (once per run): additions that carry through more than 32 trees.  A verifier state
// with N = 2^36 - c leaves (36 minus a few opaque roots) receives a few leaves; the expected
// roots are folded here from the definition (a new leaf is hashed with the root of every
// trailing one-bit of the leaf count, lowest first), for the roots-only verifier and for a
// map forest created from the same roots, in one block and leaf by leaf.
var longCarryOnce sync.Once

func longCarry(sy *Symb, fail func(props []string, inst, cat, what string, exp, got any)) int {
	calls := 0
	for _, c := range []uint64{1, 3, 5} {
		N := uint64(1)<<36 - c
		var roots []Hash // highest tree first
		for b := 63; b >= 0; b-- {
			if N>>uint(b)&1 == 1 {
				roots = append(roots, sy.H(junkTerm(700+b)))
			}
		}
		adds := make([]Hash, int(c))
		for i := range adds {
			adds[i] = sy.H(junkTerm(800 + i))
		}
		// reference fold
		exp := append([]Hash{}, roots...)
		cnt := N
		for _, a := range adds {
			cur := a
			for h := uint(0); cnt>>h&1 == 1; h++ {
				top := exp[len(exp)-1]
				exp = exp[:len(exp)-1]
				cur = parentOf(top, cur)
			}
			exp = append(exp, cur)
			cnt++
		}
		check := func(inst string, got []Hash, n uint64) {
			ok := n == cnt && len(got) == len(exp)
			for i := 0; ok && i < len(exp); i++ {
				ok = got[i] == exp[i]
			}
			if !ok {
				fail([]string{"C01"}, inst, "roots", fmt.Sprintf("%d leaves added to a forest of 2^36-%d leaves (a carry through %d trees): leaf count / roots", c, c, len(roots)), []any{cnt, len(exp)}, []any{n, len(got)})
			}
		}
		for _, oneBlock := range []bool{true, false} {
			s := utreexo.Stump{Roots: append([]Hash{}, roots...), NumLeaves: N}
			m := utreexo.NewMapPollardFromRoots(append([]Hash{}, roots...), N, false)
			pan := protect(func() {
				groups := [][]Hash{adds}
				if !oneBlock {
					groups = nil
					for _, a := range adds {
						groups = append(groups, []Hash{a})
					}
				}
				for _, g := range groups {
					if _, err := s.Update(nil, g, utreexo.Proof{}); err != nil {
						fail([]string{"C01"}, "stump", "error", "Stump.Update refused additions: "+err.Error(), nil, nil)
						return
					}
					lv := make([]utreexo.Leaf, len(g))
					for i := range g {
						lv[i] = utreexo.Leaf{Hash: g[i]}
					}
					if err := m.Modify(lv, nil, utreexo.Proof{}); err != nil {
						fail([]string{"C01"}, "map.fromroots", "error", "Modify refused additions: "+err.Error(), nil, nil)
						return
					}
				}
				check("stump", s.Roots, s.NumLeaves)
				check("map.fromroots", m.GetRoots(), m.GetNumLeaves())
			})
			calls += 2
			if pan != "" {
				fail([]string{"C01"}, "", "panic", "additions with a long carry panicked: "+pan, nil, nil)
			}
		}
	}
	return calls
}
