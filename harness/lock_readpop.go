package main

// Restoring a snapshot into a forest that is in use (C12).
//
// MapPollard.Read is a writer like any other: callers that arrive while it is
// running queue on the forest's lock and must find the lock - and the forest -
// in a usable state afterwards.  The scenario: a populated partial forest
// (a behaviour of spec/Partial.tla), Read of its own snapshot suspended at its
// first interior point, every kind of query and a writer issued meanwhile,
// Read released.  Every answer must be the one of the (unchanged) state and
// everyone must return.
//
// A library that mishandles its lock here does not fail with an error: the Go
// runtime aborts the process ("fatal error: sync: RUnlock of unlocked
// RWMutex", "concurrent map read and map write"), which cannot be recovered
// from.  The scenario therefore runs in a child process of the harness; the
// parent reads the child's report, and a runtime abort whose goroutine stacks
// lie in the library is reported as the library's behaviour.

import (
	"bytes"
	"encoding/json"
	"fmt"
	"io"
	"os"
	"os/exec"
	"runtime"
	"strings"
	"time"

	"github.com/utreexo/utreexo"
)

func init() {
	subcommands["lockchild"] = runLockChild
}

type lockChildReport struct {
	Fails []Fail `json:"fails"`
	Calls int    `json:"calls"`
	Skip  string `json:"skip,omitempty"`
}

func runLockChild(cfg Config, in io.Reader, extra string, workers int) int {
	raw, err := io.ReadAll(in)
	if err != nil {
		return 2
	}
	l, ok, err := parseTLCLine(strings.TrimSpace(string(raw)))
	if err != nil || !ok {
		fmt.Fprintln(os.Stderr, "ERROR lockchild: bad line", err)
		return 2
	}
	r := NewRunner(cfg)
	r.internLine(l)
	rep := lockChildReport{}
	fail := func(cat, what string, exp, got any) {
		rep.Fails = append(rep.Fails, Fail{Props: []string{"C12"}, Inst: "map.part", Cat: cat, What: what, Exp: exp, Got: got, Step: len(l.Hist)})
	}
	for _, rows := range []uint8{63, 0} {
		c := &lockCase{sy: r.sy, rows: rows, hist: l.Hist, op: l.Step}
		all := append(append([]Step{}, l.Hist...), l.Step)
		m, n, _, err := c.build(all)
		if err != nil {
			rep.Skip = "cannot build the state: " + err.Error()
			continue
		}
		ref, _, _, _ := c.build(all)
		var snap bytes.Buffer
		if _, err := ref.Write(&snap); err != nil {
			rep.Skip = "cannot serialize: " + err.Error()
			continue
		}
		// sequential reference: the same restore on a copy
		if _, err := ref.Read(bytes.NewReader(snap.Bytes())); err != nil {
			rep.Skip = "sequential restore into the populated forest fails: " + err.Error()
			continue
		}
		args := c.argsFor(ref, n)
		pre, _, _, _ := c.build(all)
		ansPre, ansPost := map[string]string{}, map[string]string{}
		for _, k := range queryKinds {
			ansPre[k] = c.answer(pre, k, args)
			ansPost[k] = c.answer(ref, k, args)
		}
		ctl := &pauseCtl{hit: 1, paused: make(chan struct{}), release: make(chan struct{})}
		utreexo.VerifPoint = ctl.hook
		wdone := make(chan string, 1)
		go func() {
			var e error
			pan := protect(func() { _, e = m.Read(bytes.NewReader(snap.Bytes())) })
			if pan != "" {
				wdone <- "PANIC: " + pan
			} else if e != nil {
				wdone <- "error: " + e.Error()
			} else {
				wdone <- ""
			}
		}()
		select {
		case <-ctl.paused:
		case msg := <-wdone:
			wdone <- msg
		case <-time.After(10 * time.Second):
			fail("deadlock", "Read into the populated forest neither reached its first interior point nor returned within 10s", nil, nil)
			continue
		}
		type qres struct{ kind, ans string }
		out := make(chan qres, 2*len(queryKinds))
		for round := 0; round < 2; round++ {
			for _, k := range queryKinds {
				k := k
				go func() { out <- qres{k, c.answer(m, k, args)} }()
			}
		}
		spin := time.Now().Add(500 * time.Microsecond)
		for time.Now().Before(spin) {
			runtime.Gosched()
		}
		close(ctl.release)
		dead := false
		timeout := time.After(10 * time.Second)
		var got []qres
		for len(got) < 2*len(queryKinds) && !dead {
			select {
			case q := <-out:
				got = append(got, q)
			case <-timeout:
				dead = true
			}
		}
		wmsg := ""
		if !dead {
			select {
			case wmsg = <-wdone:
			case <-time.After(10 * time.Second):
				dead = true
			}
		}
		utreexo.VerifPoint = nil
		rep.Calls += 2*len(queryKinds) + 1
		if dead {
			fail("deadlock", fmt.Sprintf("deadlock: Read into the populated forest (TotalRows %d) suspended at its first interior point with queries waiting: not everyone finished within 10s of its release", rows), nil, nil)
			break
		}
		if wmsg != "" {
			fail("writer", "Read into the populated forest failed: "+wmsg, nil, nil)
		}
		for _, q := range got {
			if strings.HasPrefix(q.ans, "PANIC") {
				fail("panic", fmt.Sprintf("%s panicked after waiting for Read into the populated forest (TotalRows %d): %s", q.kind, rows, q.ans), nil, nil)
			} else if q.ans != ansPre[q.kind] && q.ans != ansPost[q.kind] {
				fail("halfapplied", fmt.Sprintf("%s issued while Read into the populated forest (TotalRows %d) was suspended returned a result that is correct neither before nor after the restore", q.kind, rows),
					map[string]string{"before": ansPre[q.kind], "after": ansPost[q.kind]}, q.ans)
			}
		}
		// the forest is still usable: a writer and a query after the restore
		done := make(chan string, 1)
		go func() {
			a := c.answer(m, "GetRoots", args)
			if len(args.vHashes) > 0 {
				a += " " + c.answer(m, "Verify/remember", &queryArgs{vHashes: args.vHashes, vProof: args.vProof, targets: args.targets, rememberOK: true})
			}
			done <- a
		}()
		select {
		case a := <-done:
			exp := ansPost["GetRoots"]
			if len(args.vHashes) > 0 {
				exp += " " + ansPost["Verify"]
			}
			if a != exp {
				fail("poststate", fmt.Sprintf("after Read into the populated forest (TotalRows %d): GetRoots / Verify(remember)", rows), exp, a)
			}
		case <-time.After(10 * time.Second):
			fail("deadlock", fmt.Sprintf("deadlock: the forest (TotalRows %d) is unusable after Read into it: GetRoots / Verify(remember) did not return within 10s", rows), nil, nil)
		}
	}
	b, _ := json.Marshal(rep)
	fmt.Printf("##CHILD %s\n", b)
	return 0
}

// readPopChild runs the scenario for one behaviour in a child process.
func (r *Runner) readPopChild(l *Line, res *lineResult, fail func(cat, what string, exp, got any)) {
	exe, err := os.Executable()
	if err != nil {
		return
	}
	cmd := exec.Command(exe, "lockchild")
	cmd.Stdin = strings.NewReader(l.raw)
	var so, se bytes.Buffer
	cmd.Stdout, cmd.Stderr = &so, &se
	cmd.Env = append(os.Environ(), "GOTRACEBACK=all")
	done := make(chan error, 1)
	if err := cmd.Start(); err != nil {
		return
	}
	go func() { done <- cmd.Wait() }()
	var werr error
	select {
	case werr = <-done:
	case <-time.After(120 * time.Second):
		cmd.Process.Kill()
		<-done
		res.extra["readpop_child_timeouts"]++
		return // infrastructure, not a verdict
	}
	res.extra["readpop_children"]++
	for _, line := range strings.Split(so.String(), "\n") {
		if strings.HasPrefix(line, "##CHILD ") {
			var rep lockChildReport
			if json.Unmarshal([]byte(line[8:]), &rep) == nil {
				res.calls += rep.Calls
				for _, f := range rep.Fails {
					fail(f.Cat, f.What, f.Exp, f.Got)
				}
				if werr == nil {
					return
				}
			}
		}
	}
	if werr == nil {
		return
	}
	// the child died: a runtime abort inside the library is the library's behaviour
	st := se.String()
	if i := strings.Index(st, "fatal error: "); i >= 0 {
		msg := st[i:]
		first := strings.SplitN(msg, "\n", 2)[0]
		lockish := strings.Contains(first, "sync:") || strings.Contains(first, "concurrent map") || strings.Contains(first, "all goroutines are asleep")
		if lockish && abortInLibrary(msg) {
			fail("fatal", "the Go runtime aborted the process while queries waited for Read into a populated forest: "+first, nil, firstLines(msg, 30))
			return
		}
	}
	if strings.Contains(st, "WARNING: DATA RACE") && strings.Contains(st, "github.com/utreexo/utreexo.") {
		fail("race", "data race reported by the Go race detector (Read into a populated forest with queries waiting)", nil, firstLines(st[strings.Index(st, "WARNING: DATA RACE"):], 40))
		return
	}
	res.extra["readpop_child_errors"]++
}

// abortInLibrary: the goroutine that triggered the abort (the first stack of
// the report) is executing library code: its innermost non-runtime frame is a
// function of the utreexo package.
func abortInLibrary(report string) bool {
	lines := strings.Split(report, "\n")
	inFirst := false
	for _, ln := range lines {
		if strings.HasPrefix(ln, "goroutine ") {
			if inFirst {
				return false
			}
			inFirst = true
			continue
		}
		if !inFirst || strings.HasPrefix(ln, "\t") || ln == "" {
			continue
		}
		fn := strings.TrimSpace(ln)
		if strings.HasPrefix(fn, "runtime.") || strings.HasPrefix(fn, "sync.") || strings.HasPrefix(fn, "internal/") || strings.HasPrefix(fn, "sync/atomic.") {
			continue
		}
		return strings.HasPrefix(fn, "github.com/utreexo/utreexo.")
	}
	return false
}
