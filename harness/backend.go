package main

// Custom storage back-ends for the map forest.  MapPollard keeps its leaf
// index and its nodes behind the exported interfaces CachedLeavesInterface and
// NodesInterface; these implementations are not the library's maps: ForEach
// visits the keys in ascending order over a snapshot taken when it starts
// (an entry deleted meanwhile is skipped, one added meanwhile is not visited),
// and every operation is counted.  A library that only works with its own map
// types, or that relies on the iteration behaviour of Go maps, shows up as a
// deviation of the instances built on these back-ends.

import (
	"bytes"
	"errors"
	"sort"
	"sync/atomic"

	"github.com/utreexo/utreexo"
)

type orderedLeaves struct {
	m   map[Hash]uint64
	ops int
	// suspension of the operation that makes the next look-up (lock schedules): when armed, the
	// first Get signals `paused' and waits for `release'
	armed   atomic.Bool
	paused  chan struct{}
	release chan struct{}
}

func (o *orderedLeaves) Get(k Hash) (uint64, bool) {
	if o.armed.CompareAndSwap(true, false) {
		close(o.paused)
		<-o.release
	}
	o.ops++
	v, ok := o.m[k]
	return v, ok
}
func (o *orderedLeaves) Put(k Hash, v uint64) { o.ops++; o.m[k] = v }
func (o *orderedLeaves) Delete(k Hash)        { o.ops++; delete(o.m, k) }
func (o *orderedLeaves) Length() int          { return len(o.m) }
func (o *orderedLeaves) ForEach(fn func(Hash, uint64) error) error {
	keys := make([]Hash, 0, len(o.m))
	for k := range o.m {
		keys = append(keys, k)
	}
	sort.Slice(keys, func(i, j int) bool { return bytes.Compare(keys[i][:], keys[j][:]) < 0 })
	for _, k := range keys {
		v, ok := o.m[k]
		if !ok {
			continue
		}
		if err := fn(k, v); err != nil {
			return err
		}
	}
	return nil
}

type orderedNodes struct {
	m   map[uint64]utreexo.Leaf
	ops int
	// failScanAfter >= 0: the next ForEach breaks off with errScan after that many entries (a
	// store whose scan fails, e.g. a database); -1 = never
	failScanAfter int
}

var errScan = errors.New("node store: scan failed")

func (o *orderedNodes) Get(k uint64) (utreexo.Leaf, bool) { o.ops++; v, ok := o.m[k]; return v, ok }
func (o *orderedNodes) Put(k uint64, v utreexo.Leaf)      { o.ops++; o.m[k] = v }
func (o *orderedNodes) Delete(k uint64)                   { o.ops++; delete(o.m, k) }
func (o *orderedNodes) Length() int                       { return len(o.m) }
func (o *orderedNodes) ForEach(fn func(uint64, utreexo.Leaf) error) error {
	keys := make([]uint64, 0, len(o.m))
	for k := range o.m {
		keys = append(keys, k)
	}
	sort.Slice(keys, func(i, j int) bool { return keys[i] < keys[j] })
	for i, k := range keys {
		if o.failScanAfter >= 0 && i >= o.failScanAfter {
			return errScan
		}
		v, ok := o.m[k]
		if !ok {
			continue
		}
		if err := fn(k, v); err != nil {
			return err
		}
	}
	return nil
}

// newMapCustom returns a map forest on the custom back-ends.
func newMapCustom(full bool, rows uint8) *utreexo.MapPollard {
	m := newMap(full, rows)
	m.CachedLeaves = &orderedLeaves{m: map[Hash]uint64{}}
	m.Nodes = &orderedNodes{m: map[uint64]utreexo.Leaf{}, failScanAfter: -1}
	return m
}
