package main

// Call monitor for C17: the slices handed to the library are allocated with
// spare capacity filled with sentinels and snapshotted; after the call the
// whole backing array must be unchanged.  Results returned by earlier calls
// are retained and re-compared after every later call.

import (
	"fmt"
	"strings"

	"github.com/utreexo/utreexo"
)

const sentinelTail = 3

var sentinelHash = Hash{0xde, 0xad, 0xbe, 0xef, 0x5e, 0x17, 0x1e, 0x1}

const sentinelU64 = 0xdeadbeefcafef00d

type Monitor struct {
	w        *World
	retained []retainedItem
	ncalls   int
}

type retainedItem struct {
	inst  string
	what  string
	hs    []Hash   // live view (shares the backing array the library returned)
	hsnap []Hash   // snapshot
	us    []uint64 // live view
	usnap []uint64
}

type guard struct {
	m      *Monitor
	in     *Inst
	call   string
	checks []func() string
}

func (m *Monitor) begin(in *Inst, call string) *guard {
	m.ncalls++
	return &guard{m: m, in: in, call: call}
}

func (g *guard) H(name string, src []Hash) []Hash {
	buf := make([]Hash, len(src)+sentinelTail)
	copy(buf, src)
	for i := len(src); i < len(buf); i++ {
		buf[i] = sentinelHash
	}
	snap := append([]Hash{}, buf...)
	g.checks = append(g.checks, func() string {
		for i := range buf {
			if buf[i] != snap[i] {
				if i >= len(src) {
					return fmt.Sprintf("%s: spare capacity of the caller's slice overwritten at index %d", name, i)
				}
				return fmt.Sprintf("%s[%d] changed", name, i)
			}
		}
		return ""
	})
	return buf[:len(src)]
}

func (g *guard) U(name string, src []uint64) []uint64 {
	buf := make([]uint64, len(src)+sentinelTail)
	copy(buf, src)
	for i := len(src); i < len(buf); i++ {
		buf[i] = sentinelU64
	}
	snap := append([]uint64{}, buf...)
	g.checks = append(g.checks, func() string {
		for i := range buf {
			if buf[i] != snap[i] {
				if i >= len(src) {
					return fmt.Sprintf("%s: spare capacity of the caller's slice overwritten at index %d", name, i)
				}
				return fmt.Sprintf("%s[%d] changed from %d to %d", name, i, snap[i], buf[i])
			}
		}
		return ""
	})
	return buf[:len(src)]
}

func (g *guard) U32(name string, src []uint32) []uint32 {
	buf := make([]uint32, len(src)+sentinelTail)
	copy(buf, src)
	for i := len(src); i < len(buf); i++ {
		buf[i] = 0xfeedf00d
	}
	snap := append([]uint32{}, buf...)
	g.checks = append(g.checks, func() string {
		for i := range buf {
			if buf[i] != snap[i] {
				return fmt.Sprintf("%s[%d] changed", name, i)
			}
		}
		return ""
	})
	return buf[:len(src)]
}

func (g *guard) L(name string, src []utreexo.Leaf) []utreexo.Leaf {
	buf := make([]utreexo.Leaf, len(src)+sentinelTail)
	copy(buf, src)
	for i := len(src); i < len(buf); i++ {
		buf[i] = utreexo.Leaf{Hash: sentinelHash, Remember: true}
	}
	snap := append([]utreexo.Leaf{}, buf...)
	g.checks = append(g.checks, func() string {
		for i := range buf {
			if buf[i] != snap[i] {
				return fmt.Sprintf("%s[%d] changed", name, i)
			}
		}
		return ""
	})
	return buf[:len(src)]
}

// end checks the arguments of this call and every retained earlier result.
func (g *guard) end() {
	for _, c := range g.checks {
		if msg := c(); msg != "" {
			g.m.w.fail([]string{"C17"}, g.in, "args", g.call+": argument modified: "+msg, nil, nil)
		}
	}
	g.m.recheck(g.call, g.in)
}

func (m *Monitor) recheck(call string, in *Inst) {
	for i := range m.retained {
		r := &m.retained[i]
		bad := false
		for j := range r.hs {
			if r.hs[j] != r.hsnap[j] {
				bad = true
			}
		}
		for j := range r.us {
			if r.us[j] != r.usnap[j] {
				bad = true
			}
		}
		if bad {
			props := []string{"C17"}
			if strings.HasPrefix(r.what, "Prove result") {
				// a proof that changes after it was handed out is no longer the canonical proof (C02)
				props = append(props, "C02")
			}
			m.w.fail(props, in, "retained",
				fmt.Sprintf("%s returned earlier by %s changed during a later %s", r.what, r.inst, call), nil, nil)
			// report once
			r.hsnap = append([]Hash{}, r.hs...)
			r.usnap = append([]uint64{}, r.us...)
		}
	}
}

func (m *Monitor) retainH(in *Inst, what string, hs []Hash) {
	if len(hs) == 0 {
		return
	}
	m.retained = append(m.retained, retainedItem{inst: in.Name, what: what, hs: hs, hsnap: append([]Hash{}, hs...)})
}

func (m *Monitor) retainU(in *Inst, what string, us []uint64) {
	if len(us) == 0 {
		return
	}
	m.retained = append(m.retained, retainedItem{inst: in.Name, what: what, us: us, usnap: append([]uint64{}, us...)})
}

func (m *Monitor) retainProof(in *Inst, what string, p *utreexo.Proof) {
	m.retainU(in, what+".Targets", p.Targets)
	m.retainH(in, what+".Proof", p.Proof)
}

func (m *Monitor) retainUpd(in *Inst, what string, u *utreexo.UpdateData) {
	m.retainU(in, what+".ToDestroy", u.ToDestroy)
	m.retainU(in, what+".NewDelPos", u.NewDelPos)
	m.retainH(in, what+".NewDelHash", u.NewDelHash)
	m.retainU(in, what+".NewAddPos", u.NewAddPos)
	m.retainH(in, what+".NewAddHash", u.NewAddHash)
}
