package main

import (
	"strconv"
	"strings"
)

// Replay of behaviours of the Core family (spec/Core.tla).


func (r *Runner) coreWorld() *World {
	rows := rowsFor(r.cfg.Tier)
	if v := optVal(r.extra, "rows", ""); v != "" {
		rows = nil
		for _, x := range strings.Split(v, ";") {
			n, _ := strconv.Atoi(x)
			rows = append(rows, uint8(n))
		}
	}
	return NewWorld(r.sy, WorldCfg{Rows: rows, Seed: r.cfg.Seed,
		Stump: true, Pollard: true, MapFull: true, MapPart: true})
}

func (r *Runner) replayCore(l *Line) lineResult {
	if optVal(r.extra, "only", "") == "undo" {
		// wide configurations: only behaviours that contain an undo are replayed
		has := l.Step.A == "undo"
		for i := range l.Hist {
			has = has || l.Hist[i].A == "undo"
		}
		if !has {
			return lineResult{skipped: "no undo in this behaviour (wide configuration replays undo behaviours only)"}
		}
	}
	r.internLine(l)
	w := r.coreWorld()
	res := lineResult{insts: len(w.insts)}
	w.serial = r.serial
	w.evlog = r.logEvent
	for i := range l.Hist {
		w.stepI = i
		w.histSoFar = l.Hist[:i]
		w.coreStep(&l.Hist[i], nil)
		if w.encRejected {
			break
		}
	}
	if !w.encRejected {
		w.stepI = len(l.Hist)
		w.histSoFar = l.Hist
		w.coreStep(&l.Step, &l.Expect)
	}
	if w.encRejected {
		res.skipped = "encoding not accepted by Verify"
		res.extra = map[string]int{"enc_rejected": 1}
	} else if l.Step.Enc != nil && l.Step.Enc.Kind != "canon" {
		res.extra = map[string]int{"enc_accepted." + l.Step.Enc.Kind: 1}
	}
	res.fails = w.fails
	res.calls = w.mon.ncalls
	if w.nserial > 0 {
		if res.extra == nil {
			res.extra = map[string]int{}
		}
		res.extra["fault_runs"] = w.nserial
	}
	st := &l.Step
	res.nontrivial = st.A == "prove" || st.A == "undo" || st.A == "restore" || len(st.D) > 0 || st.K > 0
	return res
}

// coreStep executes one step on every instance; exp is non-nil for the last
// step of a line (the one whose complete expectation was emitted).
func (w *World) coreStep(st *Step, exp *Expect) {
	switch st.A {
	case "mod":
		if st.Enc != nil && st.Enc.Kind != "canon" {
			w.ctx["C05"] = true
		}
		w.applyMod(st)
		if w.encRejected {
			return
		}
		w.checkRoots(st.Post)
	case "undo":
		w.applyUndo(st)
		w.checkRoots(st.Post)
	case "prove":
		if exp == nil {
			// a query recorded inside the history: the step carries the canonical proof
			exp = &Expect{Pf: st.Pf}
		}
		w.applyProve(st, exp)
		return
	case "restore":
		// the fault enumeration runs on the state of the last step only
		ser := w.serial
		w.serial = ser && exp != nil
		w.applyRestore(exp, w.histSoFar)
		w.serial = ser
		w.ctx["C13"] = true
	default:
		panic("unknown step " + st.A)
	}
	if exp != nil {
		if st.A == "restore" {
			w.checkRoots(exp.Roots)
		}
		w.fullCompare(exp)
	}
}

// applyRestore serializes every forest and continues on the restored copy.
func (w *World) applyRestore(exp *Expect, hist []Step) {
	// the leaves a full forest tracks are the live ones: replayed from the steps
	live := map[int]bool{}
	n := 0
	var stack []map[int]bool
	var nstack []int
	for i := range hist {
		st := &hist[i]
		switch st.A {
		case "mod":
			cp := map[int]bool{}
			for k := range live {
				cp[k] = true
			}
			stack = append(stack, cp)
			nstack = append(nstack, n)
			for _, d := range st.D {
				delete(live, d)
			}
			for k := 0; k < st.K; k++ {
				live[n+k] = true
			}
			n += st.K
		case "undo":
			live = stack[len(stack)-1]
			n = nstack[len(nstack)-1]
			stack = stack[:len(stack)-1]
			nstack = nstack[:len(nstack)-1]
		}
	}
	w.roundTrip(w.n, func(in *Inst) []int {
		out := []int{}
		for s := 0; s < n; s++ {
			if live[s] && (in.Kind != KMapPart || in.cached[s]) {
				out = append(out, s)
			}
		}
		return out
	})
}

// internLine makes every hash term that occurs in the line known to the
// dictionary, so that hashes returned by the code can be named.
func (r *Runner) internLine(l *Line) {
	in := func(ts []string) {
		for _, t := range ts {
			r.sy.H(t)
		}
	}
	step := func(st *Step) {
		in(st.Alphabet)
		in(st.Pre)
		in(st.Post)
		in(st.Roots)
		for _, p := range []*JProof{st.Pf, st.Pfa, st.Pfb, st.Cp} {
			if p != nil {
				in(p.P)
			}
		}
		if st.Enc != nil {
			for _, p := range []*JProof{st.Enc.Pa, st.Enc.Pb, st.Enc.Psup} {
				if p != nil {
					in(p.P)
				}
			}
		}
		if st.Upd != nil {
			for _, x := range st.Upd.Ndel {
				r.sy.H(x.Hash)
			}
			for _, x := range st.Upd.Nadd {
				r.sy.H(x.Hash)
			}
		}
	}
	for i := range l.Hist {
		step(&l.Hist[i])
	}
	step(&l.Step)
	in(l.Expect.Roots)
	in(l.Expect.Hs)
	for _, x := range l.Expect.Nodes {
		r.sy.H(x.Hash)
	}
	if l.Expect.Pf != nil {
		in(l.Expect.Pf.P)
	}
}
