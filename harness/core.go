package main

import (
	"fmt"
	"strconv"
	"strings"
)

// Replay of behaviours of the Core family (spec/Core.tla).


func (r *Runner) coreWorld() *World {
	rows := rowsFor(r.cfg.Tier)
	if v := optVal(r.extra, "rows", ""); v != "" {
		rows = nil
		for _, x := range strings.Split(v, ";") {
			n, _ := strconv.Atoi(x)
			rows = append(rows, uint8(n))
		}
	}
	return NewWorld(r.sy, WorldCfg{Rows: rows, Seed: r.cfg.Seed,
		Stump: true, Pollard: !r.sy.sparse, MapFull: true, MapPart: true})
}

// substLeaf replaces every occurrence of the leaf term L<from> in a hash term by L<to>.
func substLeaf(t string, from, to int) string {
	f := "L" + strconv.Itoa(from)
	var b strings.Builder
	for i := 0; i < len(t); {
		if strings.HasPrefix(t[i:], f) {
			j := i + len(f)
			if j == len(t) || t[j] < '0' || t[j] > '9' {
				b.WriteString("L" + strconv.Itoa(to))
				i = j
				continue
			}
		}
		b.WriteByte(t[i])
		i++
	}
	return b.String()
}

// labOf is the relabelling in force after a step: the leaf of slot lab[0]
// carries the hash term of slot lab[1] (spec/Core.tla, marks.lab).
func labOf(st *Step) map[int]int {
	if len(st.Lab) == 2 {
		return map[int]int{st.Lab[0]: st.Lab[1]}
	}
	return nil
}

func substLab(t string, lab map[int]int) string {
	for to, from := range lab {
		t = substLeaf(t, to, from)
	}
	return t
}

// relabel rewrites every hash term of a line under the relabellings its steps
// carry.  The reference semantics is written over slots; under a relabelling
// <<to, from>> the leaf of slot `to' carries the hash L<from>, which is a
// substitution on the free term algebra.  The fields that describe the state
// before a block (previous roots, the deletion proof, the deleted side of the
// update data) are read under the relabelling in force before the step,
// everything else under the one in force after it.  Returns nil when no step
// carries a relabelling.
func relabel(l *Line) *Line {
	steps := append(append([]Step{}, l.Hist...), l.Step)
	any := false
	for i := range steps {
		any = any || len(steps[i].Lab) == 2
	}
	if !any {
		return nil
	}
	sub := func(ts []string, lab map[int]int) []string {
		if ts == nil || lab == nil {
			return ts
		}
		out := make([]string, len(ts))
		for i, t := range ts {
			out[i] = substLab(t, lab)
		}
		return out
	}
	subPH := func(ps []PosHash, lab map[int]int) []PosHash {
		if ps == nil || lab == nil {
			return ps
		}
		out := append([]PosHash{}, ps...)
		for i := range out {
			out[i].Hash = substLab(out[i].Hash, lab)
		}
		return out
	}
	subPf := func(p *JProof, lab map[int]int) *JProof {
		if p == nil || lab == nil {
			return p
		}
		return &JProof{T: p.T, P: sub(p.P, lab)}
	}
	var pre map[int]int
	ns := make([]Step, len(steps))
	for i := range steps {
		st := steps[i]
		post := labOf(&st)
		before := post
		if st.A == "mod" {
			before = pre
		}
		st.Pre = sub(st.Pre, before)
		st.Pf = subPf(st.Pf, before)
		st.Post = sub(st.Post, post)
		if st.Upd != nil {
			u := *st.Upd
			u.Ndel = subPH(u.Ndel, before)
			u.Nadd = subPH(u.Nadd, post)
			st.Upd = &u
		}
		if st.Enc != nil {
			e := *st.Enc
			e.Pa, e.Pb, e.Psup = subPf(e.Pa, before), subPf(e.Pb, before), subPf(e.Psup, before)
			st.Enc = &e
		}
		ns[i] = st
		pre = post
	}
	out := *l
	out.Hist = ns[:len(ns)-1]
	out.Step = ns[len(ns)-1]
	e := l.Expect
	e.Roots = sub(e.Roots, pre)
	e.Nodes = subPH(e.Nodes, pre)
	e.Pf = subPf(e.Pf, pre)
	out.Expect = e
	return &out
}

// reuseVariant: the same behaviour in which the first leaf added by one block
// carries the hash of a leaf that the same block deletes (spent and created
// again in one block; the live leaves stay pairwise distinct) - the
// relabelling of spec/Core.tla, derived here for behaviours that were
// generated without it.  Only for pure block histories.
func reuseVariant(l *Line) *Line {
	steps := append(append([]Step{}, l.Hist...), l.Step)
	n := 0
	cand := []int{}
	base := []int{}
	for i := range steps {
		if steps[i].A != "mod" || (steps[i].Enc != nil && steps[i].Enc.Kind != "canon") || len(steps[i].Lab) > 0 {
			return nil
		}
		if len(steps[i].D) > 0 && steps[i].K > 0 {
			cand = append(cand, i)
			base = append(base, n)
		}
		n += steps[i].K
	}
	if len(cand) == 0 {
		return nil
	}
	pick := int(lineHash(l.raw) % uint64(len(cand)))
	b, s := cand[pick], base[pick]
	for i := b; i < len(steps); i++ {
		steps[i].Lab = []int{s, steps[b].D[0]}
	}
	out := *l
	out.Hist = steps[:len(steps)-1]
	out.Step = steps[len(steps)-1]
	return &out
}

func labNote(l *Line) string {
	steps := append(append([]Step{}, l.Hist...), l.Step)
	for i := range steps {
		if len(steps[i].Lab) == 2 {
			return fmt.Sprintf(" [the leaf added into slot %d by step %d carries the hash of slot %d, deleted by the same block]", steps[i].Lab[0], i, steps[i].Lab[1])
		}
	}
	return ""
}

func (r *Runner) replayCore(l *Line) lineResult {
	if rl := relabel(l); rl != nil {
		res := r.replayCoreWith(rl)
		for i := range res.fails {
			res.fails[i].What += labNote(rl)
		}
		if res.extra == nil {
			res.extra = map[string]int{}
		}
		res.extra["relabelled_behaviours"]++
		return res
	}
	res := r.replayCoreWith(l)
	if optVal(r.extra, "reuse", "") == "1" && len(res.fails) == 0 {
		if v := reuseVariant(l); v != nil {
			rl := relabel(v)
			r2 := r.replayCoreWith(rl)
			for i := range r2.fails {
				r2.fails[i].What += labNote(rl) + " (variant derived by the harness)"
			}
			res.fails = append(res.fails, r2.fails...)
			res.calls += r2.calls
			if res.extra == nil {
				res.extra = map[string]int{}
			}
			res.extra["hash_reuse_variants"]++
		}
	}
	return res
}

func (r *Runner) replayCoreWith(l *Line) lineResult {
	if optVal(r.extra, "only", "") == "undo" {
		// wide configurations: only behaviours that contain an undo are replayed
		has := l.Step.A == "undo"
		for i := range l.Hist {
			has = has || l.Hist[i].A == "undo"
		}
		if !has {
			return lineResult{skipped: "no undo in this behaviour (wide configuration replays undo behaviours only)"}
		}
	}
	r.internLine(l)
	w := r.coreWorld()
	res := lineResult{insts: len(w.insts)}
	w.serial = r.serial
	w.evlog = r.logEvent
	for i := range l.Hist {
		w.stepI = i
		w.histSoFar = l.Hist[:i]
		w.reuse = labOf(&l.Hist[i])
		w.coreStep(&l.Hist[i], nil)
		if w.encRejected {
			break
		}
	}
	if !w.encRejected {
		w.stepI = len(l.Hist)
		w.histSoFar = l.Hist
		w.reuse = labOf(&l.Step)
		w.coreStep(&l.Step, &l.Expect)
	}
	if w.encRejected {
		res.skipped = "encoding not accepted by Verify"
		res.extra = map[string]int{"enc_rejected": 1}
	} else if l.Step.Enc != nil && l.Step.Enc.Kind != "canon" {
		res.extra = map[string]int{"enc_accepted." + l.Step.Enc.Kind: 1}
	}
	res.fails = w.fails
	res.calls = w.mon.ncalls
	if w.undoEnc > 0 {
		if res.extra == nil {
			res.extra = map[string]int{}
		}
		res.extra["undos_with_a_noncanonical_block_proof"] += w.undoEnc
	}
	if w.nserial > 0 {
		if res.extra == nil {
			res.extra = map[string]int{}
		}
		res.extra["fault_runs"] = w.nserial
	}
	st := &l.Step
	res.nontrivial = st.A == "prove" || st.A == "undo" || st.A == "restore" || len(st.D) > 0 || st.K > 0
	return res
}

// coreStep executes one step on every instance; exp is non-nil for the last
// step of a line (the one whose complete expectation was emitted).
func (w *World) coreStep(st *Step, exp *Expect) {
	switch st.A {
	case "mod":
		if (st.Enc != nil && st.Enc.Kind != "canon") || len(st.Lab) == 2 {
			// C05 speaks about every accepted block; it is judged on the
			// behaviours that go beyond what C01 covers: non-canonical
			// encodings and relabelled leaves
			w.ctx["C05"] = true
		}
		w.applyMod(st)
		if w.encRejected {
			return
		}
		w.checkRoots(st.Post)
	case "undo":
		w.applyUndo(st)
		w.checkRoots(st.Post)
	case "prove":
		if exp == nil {
			// a query recorded inside the history: the step carries the canonical proof
			exp = &Expect{Pf: st.Pf}
		}
		w.applyProve(st, exp)
		return
	case "restore":
		// the fault enumeration runs on the state of the last step only
		ser := w.serial
		w.serial = ser && exp != nil
		w.applyRestore(exp, w.histSoFar)
		w.serial = ser
		w.ctx["C13"] = true
	default:
		panic("unknown step " + st.A)
	}
	if exp != nil {
		if st.A == "restore" {
			w.checkRoots(exp.Roots)
		}
		w.fullCompare(exp)
	}
}

// applyRestore serializes every forest and continues on the restored copy.
func (w *World) applyRestore(exp *Expect, hist []Step) {
	// the leaves a full forest tracks are the live ones: replayed from the steps
	live := map[int]bool{}
	n := 0
	var stack []map[int]bool
	var nstack []int
	for i := range hist {
		st := &hist[i]
		switch st.A {
		case "mod":
			cp := map[int]bool{}
			for k := range live {
				cp[k] = true
			}
			stack = append(stack, cp)
			nstack = append(nstack, n)
			for _, d := range st.D {
				delete(live, d)
			}
			for k := 0; k < st.K; k++ {
				live[n+k] = true
			}
			n += st.K
		case "undo":
			live = stack[len(stack)-1]
			n = nstack[len(nstack)-1]
			stack = stack[:len(stack)-1]
			nstack = nstack[:len(nstack)-1]
		}
	}
	w.roundTrip(w.n, func(in *Inst) []int {
		out := []int{}
		for s := 0; s < n; s++ {
			if live[s] && (in.Kind != KMapPart || in.cached[s]) {
				out = append(out, s)
			}
		}
		return out
	})
}

// internLine makes every hash term that occurs in the line known to the
// dictionary, so that hashes returned by the code can be named.
func (r *Runner) internLine(l *Line) {
	in := func(ts []string) {
		for _, t := range ts {
			r.sy.H(t)
		}
	}
	step := func(st *Step) {
		in(st.Alphabet)
		in(st.Pre)
		in(st.Post)
		in(st.Roots)
		for _, p := range []*JProof{st.Pf, st.Pfa, st.Pfb, st.Cp} {
			if p != nil {
				in(p.P)
			}
		}
		if st.Enc != nil {
			for _, p := range []*JProof{st.Enc.Pa, st.Enc.Pb, st.Enc.Psup} {
				if p != nil {
					in(p.P)
				}
			}
		}
		if st.Upd != nil {
			for _, x := range st.Upd.Ndel {
				r.sy.H(x.Hash)
			}
			for _, x := range st.Upd.Nadd {
				r.sy.H(x.Hash)
			}
		}
	}
	for i := range l.Hist {
		step(&l.Hist[i])
	}
	step(&l.Step)
	in(l.Expect.Roots)
	in(l.Expect.Hs)
	for _, x := range l.Expect.Nodes {
		r.sy.H(x.Hash)
	}
	if l.Expect.Pf != nil {
		in(l.Expect.Pf.P)
	}
}
