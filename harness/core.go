package main

// Replay of behaviours of the Core family (spec/Core.tla).

import (
	"bytes"
	"fmt"

	"github.com/utreexo/utreexo"
)

func (r *Runner) coreWorld() *World {
	return NewWorld(r.sy, WorldCfg{Rows: rowsFor(r.cfg.Tier), Seed: r.cfg.Seed,
		Stump: true, Pollard: true, MapFull: true, MapPart: true})
}

func (r *Runner) replayCore(l *Line) lineResult {
	r.internLine(l)
	w := r.coreWorld()
	res := lineResult{insts: len(w.insts)}
	for i := range l.Hist {
		w.stepI = i
		w.coreStep(&l.Hist[i], nil)
		if w.encRejected {
			break
		}
	}
	if !w.encRejected {
		w.stepI = len(l.Hist)
		w.coreStep(&l.Step, &l.Expect)
	}
	if w.encRejected {
		res.skipped = "encoding not accepted by Verify"
		res.extra = map[string]int{"enc_rejected": 1}
	} else if l.Step.Enc != nil && l.Step.Enc.Kind != "canon" {
		res.extra = map[string]int{"enc_accepted." + l.Step.Enc.Kind: 1}
	}
	res.fails = w.fails
	res.calls = w.mon.ncalls
	st := &l.Step
	res.nontrivial = st.A == "prove" || st.A == "undo" || st.A == "restore" || len(st.D) > 0 || st.K > 0
	return res
}

// coreStep executes one step on every instance; exp is non-nil for the last
// step of a line (the one whose complete expectation was emitted).
func (w *World) coreStep(st *Step, exp *Expect) {
	switch st.A {
	case "mod":
		if st.Enc != nil && st.Enc.Kind != "canon" {
			w.ctx["C05"] = true
		}
		w.applyMod(st)
		if w.encRejected {
			return
		}
		w.checkRoots(st.Post)
	case "undo":
		w.applyUndo(st)
		w.checkRoots(st.Post)
	case "prove":
		w.applyProve(st, exp)
		return
	case "restore":
		w.applyRestore()
		w.ctx["C13"] = true
	default:
		panic("unknown step " + st.A)
	}
	if exp != nil {
		if st.A == "restore" {
			w.checkRoots(exp.Roots)
		}
		w.fullCompare(exp)
	}
}

// applyRestore serializes every forest and continues on the restored copy.
func (w *World) applyRestore() {
	for _, in := range w.insts {
		in := in
		var err error
		pan := protect(func() {
			switch in.Kind {
			case KPollard:
				var buf bytes.Buffer
				var wn, rn int64
				size := in.P.SerializeSize()
				wn, err = in.P.WriteTo(&buf)
				if err != nil {
					return
				}
				if int(wn) != buf.Len() || size != buf.Len() {
					w.fail([]string{"C13"}, in, "bytecount", "WriteTo count / SerializeSize", buf.Len(), []int{int(wn), size})
				}
				total := buf.Len()
				var p *utreexo.Pollard
				rn, p, err = utreexo.RestorePollardFrom(&buf)
				if err != nil {
					return
				}
				if int(rn) != total {
					w.fail([]string{"C13"}, in, "bytecount", "RestorePollardFrom count", total, rn)
				}
				in.P = p
			case KMapFull, KMapPart:
				var buf bytes.Buffer
				var wn, rn int
				wn, err = in.M.Write(&buf)
				if err != nil {
					return
				}
				if wn != buf.Len() {
					w.fail([]string{"C13"}, in, "bytecount", "Write count", buf.Len(), wn)
				}
				total := buf.Len()
				m := utreexo.NewMapPollard(in.Kind == KMapFull)
				rn, err = m.Read(&buf)
				if err != nil {
					return
				}
				if rn != total {
					w.fail([]string{"C13"}, in, "bytecount", "Read count", total, rn)
				}
				in.M = &m
			}
		})
		if pan != "" {
			w.fail([]string{"C13"}, in, "panic", "serialization panicked: "+pan, nil, nil)
		} else if err != nil {
			w.fail([]string{"C13"}, in, "error", fmt.Sprintf("round trip failed: %v", err), nil, nil)
		}
	}
}

// internLine makes every hash term that occurs in the line known to the
// dictionary, so that hashes returned by the code can be named.
func (r *Runner) internLine(l *Line) {
	in := func(ts []string) {
		for _, t := range ts {
			r.sy.H(t)
		}
	}
	step := func(st *Step) {
		in(st.Alphabet)
		in(st.Pre)
		in(st.Post)
		in(st.Roots)
		for _, p := range []*JProof{st.Pf, st.Pfa, st.Pfb, st.Cp} {
			if p != nil {
				in(p.P)
			}
		}
		if st.Enc != nil {
			for _, p := range []*JProof{st.Enc.Pa, st.Enc.Pb, st.Enc.Psup} {
				if p != nil {
					in(p.P)
				}
			}
		}
		if st.Upd != nil {
			for _, x := range st.Upd.Ndel {
				r.sy.H(x.Hash)
			}
			for _, x := range st.Upd.Nadd {
				r.sy.H(x.Hash)
			}
		}
	}
	for i := range l.Hist {
		step(&l.Hist[i])
	}
	step(&l.Step)
	in(l.Expect.Roots)
	in(l.Expect.Hs)
	for _, x := range l.Expect.Nodes {
		r.sy.H(x.Hash)
	}
	if l.Expect.Pf != nil {
		in(l.Expect.Pf.P)
	}
}
