package main

// Caching schedule (spec/Schedule.tla, property C15).  The block histories
// are the behaviours of spec/Core.tla; for each history the harness records
// the block summaries (deletion targets = the canonical positions a prover
// emits, from the specification) in a CachingScheduleTracker and asks for the
// schedule under every memory limit.  The output must satisfy the relation
// SchedOK - judged here from the slot bookkeeping of the history (nothing of
// the code under test is used) and validated again by TLC on the recorded
// events (spec/ScheduleTrace.tla).

import (
	"fmt"
	"sort"
	"sync"

	"github.com/utreexo/utreexo"
)

var schedBigOnce sync.Once

type schedBlock struct {
	D []int `json:"d"`
	K int   `json:"k"`
}

type schedEvent struct {
	Ev     string       `json:"ev"`
	Blocks []schedBlock `json:"blocks"`
	MaxMem int          `json:"maxmem"`
	Sched  [][]uint64   `json:"sched"`
}

// schedCheck evaluates SchedOK; it returns "" or a description of the first
// clause that fails, and a category.
func schedCheck(blocks []schedBlock, maxMem int, sched [][]uint64) (cat, what string) {
	created := map[uint64]int{}
	deleted := map[uint64]int{}
	n := uint64(0)
	for b, bl := range blocks {
		for _, d := range bl.D {
			deleted[uint64(d)] = b
		}
		for i := 0; i < bl.K; i++ {
			created[n] = b
			n++
		}
	}
	if len(sched) != len(blocks) {
		return "sched.len", fmt.Sprintf("schedule has %d entries for %d blocks", len(sched), len(blocks))
	}
	scheduled := map[uint64]bool{}
	for b, xs := range sched {
		for j, x := range xs {
			if x >= n {
				return "sched.notleaf", fmt.Sprintf("block %d schedules %d, which is not the slot of any leaf (only %d were added)", b, x, n)
			}
			if created[x] != b {
				return "sched.wrongblock", fmt.Sprintf("block %d schedules slot %d, which was added in block %d", b, x, created[x])
			}
			db, ok := deleted[x]
			if !ok {
				return "sched.unspent", fmt.Sprintf("block %d schedules slot %d, which no recorded block deletes", b, x)
			}
			if db <= b {
				return "sched.wrongblock", fmt.Sprintf("block %d schedules slot %d, deleted in block %d", b, x, db)
			}
			if j > 0 && xs[j-1] >= x {
				return "sched.order", fmt.Sprintf("block %d: schedule %v is not strictly ascending", b, xs)
			}
			if scheduled[x] {
				return "sched.dup", fmt.Sprintf("slot %d is scheduled twice", x)
			}
			scheduled[x] = true
		}
	}
	for i := range blocks {
		held := 0
		for x := range scheduled {
			if created[x] <= i && i < deleted[x] {
				held++
			}
		}
		if held > maxMem {
			return "sched.overlimit", fmt.Sprintf("after block %d, %d scheduled leaves exist at once but the limit is %d", i, held, maxMem)
		}
	}
	if uint64(maxMem) >= n {
		for x, _ := range deleted {
			if !scheduled[x] {
				return "sched.incomplete", fmt.Sprintf("the limit %d does not bind (%d leaves ever added) but spent slot %d (added in block %d, deleted in block %d) is not scheduled", maxMem, n, x, created[x], deleted[x])
			}
		}
	}
	return "", ""
}

func nonNil(s [][]uint64) [][]uint64 {
	out := make([][]uint64, len(s))
	for i := range s {
		out[i] = append([]uint64{}, s[i]...)
	}
	return out
}

func (r *Runner) replaySched(l *Line) lineResult {
	w := NewWorld(r.sy, WorldCfg{})
	res := lineResult{insts: 1, extra: map[string]int{}}
	steps := append(append([]Step{}, l.Hist...), l.Step)
	var blocks []schedBlock
	var summaries [][]uint64
	n := uint64(0)
	for i := range steps {
		st := &steps[i]
		if st.A != "mod" {
			return lineResult{skipped: "not a block history"}
		}
		blocks = append(blocks, schedBlock{D: append([]int{}, st.D...), K: st.K})
		summaries = append(summaries, w.encTargets(st.Pf.T, treeRows(n)))
		n += uint64(st.K)
	}
	spent := 0
	for _, b := range blocks {
		spent += len(b.D)
	}
	res.nontrivial = spent > 0
	fail := func(cat, what string, ev *schedEvent) {
		w.fails = append(w.fails, Fail{Props: []string{"C15"}, Inst: "tracker", Cat: cat, What: what, Got: ev.Sched, Exp: map[string]any{"maxmem": ev.MaxMem}, Step: len(blocks) - 1})
	}
	pan := protect(func() {
		// one tracker, all blocks recorded, every limit asked in turn on it
		cs := utreexo.NewCachingScheduleTracker(len(blocks))
		for i := range blocks {
			g := w.mon.begin(nil, "AddBlockSummary")
			cs.AddBlockSummary(g.U("deletions", summaries[i]), uint16(blocks[i].K))
			g.end()
		}
		limits := []int{}
		for m := 1; m <= int(n)+1; m++ {
			limits = append(limits, m)
		}
		limits = append(limits, int(n)+1000, 1)
		for _, m := range limits {
			out := cs.GenerateCachingSchedule(m)
			res.calls++
			ev := &schedEvent{Ev: "sched", Blocks: blocks, MaxMem: m, Sched: nonNil(out)}
			cat, what := schedCheck(blocks, m, out)
			if cat != "" {
				fail(cat, what, ev)
			}
			if cat != "" || (len(blocks)*7+m)%5 == 0 {
				r.logEvent(ev)
			}
			res.extra["schedules"]++
			if m < int(n) && spent > 0 {
				res.extra["schedules_limit_binds"]++
			}
		}
		// a second tracker asked after every recorded block (generate, record more, generate again)
		cs2 := utreexo.NewCachingScheduleTracker(0)
		for i := range blocks {
			cs2.AddBlockSummary(append([]uint64{}, summaries[i]...), uint16(blocks[i].K))
			m := 1 + (i+int(r.cfg.Seed))%3
			out := cs2.GenerateCachingSchedule(m)
			res.calls++
			ev := &schedEvent{Ev: "sched", Blocks: blocks[:i+1], MaxMem: m, Sched: nonNil(out)}
			if cat, what := schedCheck(blocks[:i+1], m, out); cat != "" {
				fail(cat+".incremental", what+" (tracker asked after every block)", ev)
				r.logEvent(ev)
			}
			res.extra["schedules"]++
		}
		// a tracker is a value: a copy taken after some block (a checkpoint kept for a
		// reorganisation) records a block of another branch - one that deletes every live
		// leaf, positions from a pointer forest following along - and is dropped; the
		// original records the rest of the history and must not have been disturbed
		var forkAt []int
		if len(blocks) >= 2 {
			forkAt = []int{int(lineHash(l.raw)>>4) % (len(blocks) - 1)}
			if r.one {
				// the re-execution of a stored case does not depend on the sample
				forkAt = nil
				for f := 0; f < len(blocks)-1; f++ {
					forkAt = append(forkAt, f)
				}
			}
		}
		for _, f := range forkAt {
			pp := utreexo.NewAccumulator()
			live := map[int]bool{}
			nn, ok := 0, true
			for i := 0; i <= f && ok; i++ {
				st := &steps[i]
				leaves := make([]utreexo.Leaf, st.K)
				for j := range leaves {
					leaves[j] = utreexo.Leaf{Hash: w.sy.H(leafTerm(nn + j))}
				}
				pr := utreexo.Proof{Targets: w.encTargets(st.Pf.T, treeRows(uint64(nn))), Proof: w.sy.Hs(st.Pf.P)}
				if pp.Modify(leaves, w.leafHashes(st.D), pr) != nil {
					ok = false
				}
				for _, d := range st.D {
					delete(live, d)
				}
				for j := 0; j < st.K; j++ {
					live[nn+j] = true
				}
				nn += st.K
			}
			var all []int
			for x := range live {
				all = append(all, x)
			}
			sort.Ints(all)
			if ok && len(all) > 0 {
				if pr, err := pp.Prove(w.leafHashes(all)); err == nil {
					cs3 := utreexo.NewCachingScheduleTracker(0)
					for i := 0; i <= f; i++ {
						cs3.AddBlockSummary(append([]uint64{}, summaries[i]...), uint16(blocks[i].K))
					}
					fork := cs3
					_ = protect(func() {
						fork.AddBlockSummary(append([]uint64{}, pr.Targets...), 0)
						_ = fork.GenerateCachingSchedule(int(n) + 1)
					})
					for i := f + 1; i < len(blocks); i++ {
						cs3.AddBlockSummary(append([]uint64{}, summaries[i]...), uint16(blocks[i].K))
					}
					for _, m := range []int{int(n) + 1, 2} {
						out := cs3.GenerateCachingSchedule(m)
						res.calls++
						ev := &schedEvent{Ev: "sched", Blocks: blocks, MaxMem: m, Sched: nonNil(out)}
						if cat, what := schedCheck(blocks, m, out); cat != "" {
							fail(cat+".fork", fmt.Sprintf("%s (a copy of the tracker taken after block %d had recorded a block of another branch)", what, f), ev)
							r.logEvent(ev)
						}
						res.extra["schedules_after_fork"]++
					}
				}
			}
		}
		// one long history (more than 65535 additions), once per run
		if len(blocks) == 1 {
			schedBigOnce.Do(func() {
				big := []schedBlock{{D: []int{}, K: 65535}, {D: []int{}, K: 11}, {K: 0}}
				var dels []uint64
				for x := 0; x < 20; x++ {
					big[2].D = append(big[2].D, x)
					dels = append(dels, uint64(x))
				}
				csb := utreexo.NewCachingScheduleTracker(3)
				csb.AddBlockSummary([]uint64{}, 65535)
				csb.AddBlockSummary([]uint64{}, 11)
				csb.AddBlockSummary(dels, 0)
				for _, m := range []int{65546, 1 << 20, 7, 20} {
					out := csb.GenerateCachingSchedule(m)
					res.calls++
					ev := &schedEvent{Ev: "sched", Blocks: nil, MaxMem: m, Sched: nonNil(out)}
					if cat, what := schedCheck(big, m, out); cat != "" {
						fail(cat+".bighistory", what+" (history: 65535 additions, 11 additions, the first 20 leaves deleted)", ev)
					}
					res.extra["schedules_big_history"]++
				}
				// histories with thousands of pending leaves and blocks of more than a thousand targets
				// (deletion targets from a pointer forest following along; the expectation is the slot
				// bookkeeping of the history, as everywhere)
				rng := func(a, b int) []int {
					var o []int
					for x := a; x < b; x++ {
						o = append(o, x)
					}
					return o
				}
				for hi, hist := range [][]schedBlock{
					{{D: []int{}, K: 2047}, {D: []int{2046}, K: 2}, {D: append(rng(0, 1500), 2047), K: 0}},
					{{D: []int{}, K: 3001}, {D: append(rng(0, 1200), 3000), K: 0}, {D: []int{}, K: 2}, {D: []int{3001}, K: 0}},
					{{D: []int{}, K: 2500}, {D: rng(1000, 2200), K: 3}, {D: append(rng(0, 1000), 2501), K: 5}, {D: rng(2300, 2400), K: 0}},
				} {
					pp := utreexo.NewAccumulator()
					csx := utreexo.NewCachingScheduleTracker(len(hist))
					total, ok := 0, true
					for _, b := range hist {
						hs := make([]Hash, len(b.D))
						for i, d := range b.D {
							hs[i] = leafHash("sched-big", uint64(d))
						}
						var tg []uint64
						if len(hs) > 0 {
							pr, err := pp.Prove(hs)
							if err != nil {
								ok = false
								break
							}
							tg = pr.Targets
							if pp.Modify(nil, hs, pr) != nil {
								ok = false
								break
							}
						}
						lv := make([]utreexo.Leaf, b.K)
						for i := range lv {
							lv[i] = utreexo.Leaf{Hash: leafHash("sched-big", uint64(total+i))}
						}
						if pp.Modify(lv, nil, utreexo.Proof{}) != nil {
							ok = false
							break
						}
						total += b.K
						csx.AddBlockSummary(append([]uint64{}, tg...), uint16(b.K))
					}
					if !ok {
						continue
					}
					for _, m := range []int{total + 1, 40} {
						out := csx.GenerateCachingSchedule(m)
						res.calls++
						ev := &schedEvent{Ev: "sched", Blocks: nil, MaxMem: m, Sched: nil}
						if cat, what := schedCheck(hist, m, out); cat != "" {
							fail(cat+".bighistory", fmt.Sprintf("%s (scripted history %d with thousands of pending leaves)", what, hi), ev)
						}
						res.extra["schedules_big_history"]++
					}
				}
			})
		}
	})
	if pan != "" {
		w.fail([]string{"C15"}, nil, "panic", "caching schedule panicked: "+pan, nil, nil)
	}
	// the summaries handed to the tracker must be left alone (C17 monitors the same calls)
	res.fails = w.fails
	sort.Slice(res.fails, func(i, j int) bool { return false })
	return res
}
