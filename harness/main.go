package main

import (
	"bufio"
	"encoding/json"
	"flag"
	"fmt"
	"hash/fnv"
	"io"
	"os"
	"path/filepath"
	"runtime"
	"sort"
	"strings"
	"sync"
)

// Config of one harness run.
type Config struct {
	Fam    string
	Judge  map[string]bool
	Tier   string
	Seed   uint64
	OutDir string
	Known  *KnownFindings
	MaxRep int
}

// Summary is printed as the last line of a run ("##SUMMARY {...}").
type Summary struct {
	Lines        int            `json:"lines"`
	Nontrivial   int            `json:"nontrivial"`
	Distinct     int            `json:"distinct_nontrivial"`
	Calls        int            `json:"calls"`
	Instances    int            `json:"instances"`
	Violations   int            `json:"violations"`
	Known        map[string]int `json:"known"`
	ByProp       map[string]int `json:"violations_by_property"`
	Samples      []any          `json:"samples"`
	Skipped      map[string]int `json:"skipped,omitempty"`
	ParseErrors  int            `json:"parse_errors"`
	FirstViolRep map[string]string `json:"first_replay,omitempty"`
	Extra        map[string]int `json:"extra,omitempty"`
}

type Violation struct {
	Property string `json:"property"`
	Family   string `json:"family"`
	Fail     Fail   `json:"fail"`
	Line     json.RawMessage `json:"line"`
	Seed     uint64 `json:"seed"`
	Tier     string `json:"tier"`
	X        string `json:"x,omitempty"` // family specific options of the run
}

type Runner struct {
	cfg   Config
	sy    *Symb
	mu    sync.Mutex
	sum   Summary
	seen  map[uint64]struct{}
	repN  map[string]int
	kfHit map[string]bool
	extra  string
	serial bool
	one    bool // re-execution of a single stored case: no sampling
	tlclog *os.File
}

func main() {
	if len(os.Args) < 2 {
		fmt.Fprintln(os.Stderr, "usage: harness <replay|one|...> [flags]")
		os.Exit(2)
	}
	cmd := os.Args[1]
	fs := flag.NewFlagSet(cmd, flag.ExitOnError)
	fam := fs.String("fam", "core", "family")
	judge := fs.String("judge", "", "comma separated property ids to judge")
	tier := fs.String("tier", "quick", "quick|thorough")
	seed := fs.Uint64("seed", 1, "seed")
	out := fs.String("out", "/verif/replays", "directory for replay files")
	known := fs.String("known", "/verif/known_findings.json", "known findings file")
	file := fs.String("file", "", "input file (default stdin)")
	workers := fs.Int("workers", runtime.NumCPU(), "parallel workers")
	maxrep := fs.Int("maxrep", 5, "max replay files per property")
	extra := fs.String("x", "", "family specific options")
	tlclog := fs.String("tlclog", "", "file receiving the non-emission lines of TLC's output")
	fs.Parse(os.Args[2:])

	cfg := Config{Fam: *fam, Judge: map[string]bool{}, Tier: *tier, Seed: *seed, OutDir: *out, MaxRep: *maxrep}
	for _, p := range strings.Split(*judge, ",") {
		if p != "" {
			cfg.Judge[p] = true
		}
	}
	kf, err := LoadKnown(*known)
	if err != nil {
		fmt.Fprintln(os.Stderr, "ERROR loading known findings:", err)
		os.Exit(2)
	}
	cfg.Known = kf

	var in io.Reader = os.Stdin
	if *file != "" {
		f, err := os.Open(*file)
		if err != nil {
			fmt.Fprintln(os.Stderr, "ERROR", err)
			os.Exit(2)
		}
		defer f.Close()
		in = f
	}

	switch cmd {
	case "replay":
		r := NewRunner(cfg)
		r.extra = *extra
		r.serial = optVal(*extra, "serial", "") == "1"
		r.sy.prefix = optVal(*extra, "prefix", "") == "1"
		r.sy.sparse = optVal(*extra, "sparse", "") == "1"
		r.sy.xorzero = optVal(*extra, "xorzero", "") == "1"
		if *tlclog != "" {
			f, err := os.Create(*tlclog)
			if err != nil {
				fmt.Fprintln(os.Stderr, "ERROR", err)
				os.Exit(2)
			}
			r.tlclog = f
			defer f.Close()
		}
		r.run(in, *workers)
		r.finish()
	case "one":
		// re-execute the case stored in a replay file; exit 1 if it fails again
		os.Exit(replayOne(cfg, *file))
	default:
		if f, ok := subcommands[cmd]; ok {
			os.Exit(f(cfg, in, *extra, *workers))
		}
		fmt.Fprintln(os.Stderr, "unknown command", cmd)
		os.Exit(2)
	}
}

func (r *Runner) logEvent(v any) { r.advTraceLine(v) }

var subcommands = map[string]func(cfg Config, in io.Reader, extra string, workers int) int{}

func NewRunner(cfg Config) *Runner {
	return &Runner{cfg: cfg, sy: NewSymb(), seen: map[uint64]struct{}{}, repN: map[string]int{},
		kfHit: map[string]bool{},
		sum: Summary{Samples: []any{}, Known: map[string]int{}, ByProp: map[string]int{}, Skipped: map[string]int{},
			FirstViolRep: map[string]string{}, Extra: map[string]int{}}}
}

func (r *Runner) run(in io.Reader, workers int) {
	lines := make(chan string, 1024)
	var wg sync.WaitGroup
	for i := 0; i < workers; i++ {
		wg.Add(1)
		go func() {
			defer wg.Done()
			for s := range lines {
				r.handle(s)
			}
		}()
	}
	br := bufio.NewReaderSize(in, 1<<20)
	for {
		s, err := br.ReadString('\n')
		if len(s) > 0 {
			s = strings.TrimRight(s, "\r\n")
			if len(s) > 3 && (s[0] == '"' || s[0] == '{') {
				lines <- s
			} else if r.tlclog != nil {
				fmt.Fprintln(r.tlclog, s)
			}
		}
		if err != nil {
			break
		}
	}
	close(lines)
	wg.Wait()
}

func (r *Runner) handle(s string) {
	l, isEm, err := parseTLCLine(s)
	if !isEm {
		return
	}
	if err != nil {
		r.mu.Lock()
		r.sum.ParseErrors++
		r.mu.Unlock()
		fmt.Fprintln(os.Stderr, "parse error:", err)
		return
	}
	res := r.replayLine(l)
	r.account(l, res)
}

type lineResult struct {
	fails      []Fail
	calls      int
	insts      int
	nontrivial bool
	skipped    string
	extra      map[string]int
	samples    []any
}

func (r *Runner) replayLine(l *Line) lineResult {
	if r.cfg.Fam == "sched" && l.Fam == "core" {
		return r.replaySched(l)
	}
	if r.cfg.Fam == "lockrun" && l.Fam == "partial" {
		return r.replayLockCase(l)
	}
	if r.cfg.Fam == "lift" && l.Fam == "core" {
		return r.replayLift(l)
	}
	if r.cfg.Fam == "prefixroots" && l.Fam == "core" {
		return r.replayPrefixRoots(l)
	}
	if r.cfg.Fam == "lift" && l.Fam == "light" {
		return r.replayLiftLight(l)
	}
	if r.cfg.Fam == "lift" && l.Fam == "ops" {
		return r.replayLiftOps(l)
	}
	switch l.Fam {
	case "core":
		return r.replayCore(l)
	default:
		if f, ok := families[l.Fam]; ok {
			return f(r, l)
		}
	}
	return lineResult{skipped: "unknown family " + l.Fam}
}

var families = map[string]func(r *Runner, l *Line) lineResult{}

func (r *Runner) account(l *Line, res lineResult) {
	h := fnv.New64a()
	h.Write([]byte(l.raw))
	key := h.Sum64()

	r.mu.Lock()
	defer r.mu.Unlock()
	r.sum.Lines++
	if l.Step.A != "" {
		r.sum.Extra["action."+l.Step.A]++ // (per generated action: a stage in which an enabled action never fires is vacuous)
	}
	r.sum.Calls += res.calls
	if res.insts > r.sum.Instances {
		r.sum.Instances = res.insts
	}
	for k, v := range res.extra {
		r.sum.Extra[k] += v
	}
	if res.skipped != "" {
		r.sum.Skipped[res.skipped]++
	}
	if res.nontrivial {
		r.sum.Nontrivial++
		if _, dup := r.seen[key]; !dup {
			r.seen[key] = struct{}{}
			r.sum.Distinct++
		}
	}
	for _, x := range res.samples {
		if len(r.sum.Samples) < 4 {
			r.sum.Samples = append(r.sum.Samples, x)
		}
	}
	if len(r.sum.Samples) < 3 && res.nontrivial && (len(l.Hist) >= 2 || l.Fam == "ops") {
		r.sum.Samples = append(r.sum.Samples, sampleOf(l))
	}
	// one violation per (line, property): the first discrepancy
	done := map[string]bool{}
	for _, f := range res.fails {
		for _, p := range f.Props {
			if !r.cfg.Judge[p] || done[p] {
				continue
			}
			if id := r.cfg.Known.Match(p, &f, l); id != "" {
				r.sum.Known[id]++
				continue
			}
			done[p] = true
			r.sum.Violations++
			r.sum.ByProp[p]++
			if r.repN[p] < r.cfg.MaxRep {
				r.repN[p]++
				path := r.writeReplay(p, &f, l)
				if _, ok := r.sum.FirstViolRep[p]; !ok {
					r.sum.FirstViolRep[p] = path
				}
				fmt.Printf("##VIOL %s\n", mustJSON(map[string]any{"property": p, "replay": path, "fail": f}))
			}
		}
	}
}

func sampleOf(l *Line) any {
	type mini struct {
		A   string `json:"a"`
		D   []int  `json:"d,omitempty"`
		K   int    `json:"k,omitempty"`
		S   []int  `json:"s,omitempty"`
		W   []int  `json:"w,omitempty"`
		As  []int  `json:"as,omitempty"`
		B   []int  `json:"b,omitempty"`
		Rem []int  `json:"rem,omitempty"`
		N   uint64 `json:"n,omitempty"`
	}
	mk := func(s *Step) mini { return mini{s.A, s.D, s.K, s.S, s.W, s.As, s.Bs, s.Rem, s.N} }
	hist := []mini{}
	for i := range l.Hist {
		hist = append(hist, mk(&l.Hist[i]))
	}
	out := map[string]any{"fam": l.Fam, "hist": hist, "step": mk(&l.Step)}
	if len(l.Expect.Roots) > 0 {
		out["expect_n"] = l.Expect.N
		out["expect_roots"] = l.Expect.Roots
	}
	if l.Expect.Pf != nil {
		out["expect_proof"] = l.Expect.Pf
	}
	return out
}

func mustJSON(v any) string {
	b, err := json.Marshal(v)
	if err != nil {
		panic(err)
	}
	return string(b)
}

func (r *Runner) writeReplay(prop string, f *Fail, l *Line) string {
	os.MkdirAll(r.cfg.OutDir, 0o755)
	h := fnv.New64a()
	h.Write([]byte(l.raw))
	h.Write([]byte(f.Inst + f.Cat))
	fam := l.Fam
	if r.cfg.Fam == "sched" || r.cfg.Fam == "lockrun" || r.cfg.Fam == "lift" || r.cfg.Fam == "prefixroots" {
		fam = r.cfg.Fam
	}
	path := filepath.Join(r.cfg.OutDir, fmt.Sprintf("%s-%s-%016x.json", prop, fam, h.Sum64()))
	v := Violation{Property: prop, Family: fam, Fail: *f, Line: json.RawMessage(l.raw), Seed: r.cfg.Seed, Tier: r.cfg.Tier, X: stripTrace(r.extra)}
	b, _ := json.MarshalIndent(v, "", " ")
	os.WriteFile(path, b, 0o644)
	return path
}

func (r *Runner) finish() {
	ids := make([]string, 0, len(r.sum.Known))
	for id := range r.sum.Known {
		ids = append(ids, id)
	}
	sort.Strings(ids)
	fmt.Printf("##SUMMARY %s\n", mustJSON(r.sum))
}

// replayOne re-executes the case of a replay file in this (fresh) process.
// Exit code 1: the same property fails again; 0: it does not.
func replayOne(cfg Config, path string) int {
	b, err := os.ReadFile(path)
	if err != nil {
		fmt.Fprintln(os.Stderr, "ERROR", err)
		return 2
	}
	var v Violation
	if err := json.Unmarshal(b, &v); err != nil {
		fmt.Fprintln(os.Stderr, "ERROR", err)
		return 2
	}
	cfg.Seed = v.Seed
	cfg.Tier = v.Tier
	cfg.Judge = map[string]bool{v.Property: true}
	cfg.Fam = v.Family
	if f, ok := replayers[v.Family]; ok {
		return f(cfg, &v)
	}
	r := NewRunner(cfg)
	r.extra = v.X
	r.one = true
	r.serial = optVal(v.X, "serial", "") == "1"
	r.sy.prefix = optVal(v.X, "prefix", "") == "1"
	r.sy.sparse = optVal(v.X, "sparse", "") == "1"
	r.sy.xorzero = optVal(v.X, "xorzero", "") == "1"
	l, _, err := parseTLCLine(string(v.Line))
	if err != nil {
		fmt.Fprintln(os.Stderr, "ERROR", err)
		return 2
	}
	res := r.replayLine(l)
	for _, f := range res.fails {
		for _, p := range f.Props {
			if p == v.Property && cfg.Known.Match(p, &f, l) != "" {
				continue // a known finding does not confirm anything
			}
			if p == v.Property {
				fmt.Printf("REPRODUCED property=%s inst=%s %s: %s exp=%v got=%v\n", p, f.Inst, f.Cat, f.What, f.Exp, f.Got)
				return 1
			}
		}
	}
	fmt.Println("NOT-REPRODUCED")
	return 0
}

// stripTrace removes the trace file option (a replay writes no trace).
func stripTrace(x string) string {
	out := []string{}
	for _, kv := range strings.Split(x, ",") {
		if kv != "" && !strings.HasPrefix(kv, "trace=") {
			out = append(out, kv)
		}
	}
	return strings.Join(out, ",")
}

var replayers = map[string]func(cfg Config, v *Violation) int{}
