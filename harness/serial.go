package main

// Serialization faults (C13).  At a "restore" step of a behaviour the forest
// is written, restored from the written bytes and the behaviour continues on
// the restored instance.  In serial mode (-x serial=1) the harness
// additionally enumerates natively, on that state, every truncation point of
// the stream under every reader policy, and every failure offset of the sink.
// The verdict rule is the relation of spec/Serial.tla (RestoreOutcome,
// WriteOutcome); every run is logged as an event and the log is validated by
// TLC against spec/SerialTrace.tla.

import (
	"bytes"
	"errors"
	"fmt"
	"io"
	"math/rand"
	"strings"

	"github.com/utreexo/utreexo"
)

// scriptedReader hands out data according to a chunk policy.
type scriptedReader struct {
	data   []byte
	pos    int
	policy string
	rng    *rand.Rand
	calls  int
}

// "stutter": every other call returns (0, nil) - allowed by the io.Reader contract ("nothing happened"),
// as readers over framed or compressed data do
var readerPolicies = []string{"whole", "byte", "half", "random", "dataeof", "byte+dataeof", "stutter"}

func (r *scriptedReader) Read(p []byte) (int, error) {
	r.calls++
	if len(p) == 0 {
		return 0, nil
	}
	left := len(r.data) - r.pos
	if r.policy == "stutter" && r.calls%2 == 1 {
		return 0, nil
	}
	if left == 0 {
		return 0, io.EOF
	}
	n := len(p)
	switch r.policy {
	case "byte", "byte+dataeof":
		n = 1
	case "half", "stutter":
		n = (len(p) + 1) / 2
	case "random":
		n = 1 + r.rng.Intn(len(p))
	}
	if n > left {
		n = left
	}
	copy(p, r.data[r.pos:r.pos+n])
	r.pos += n
	if (r.policy == "dataeof" || r.policy == "byte+dataeof") && r.pos == len(r.data) {
		// a conforming reader may return the last bytes together with io.EOF
		return n, io.EOF
	}
	return n, nil
}

// failingWriter accepts `limit' bytes in total and then fails; when partial
// is set the write that crosses the limit is accepted up to the limit.
type failingWriter struct {
	buf     bytes.Buffer
	limit   int
	partial bool
}

var errSink = errors.New("sink failed")

func (w *failingWriter) Write(p []byte) (int, error) {
	room := w.limit - w.buf.Len()
	if len(p) <= room {
		return w.buf.Write(p)
	}
	if w.partial && room > 0 {
		w.buf.Write(p[:room])
		return room, errSink
	}
	return 0, errSink
}

type serialEvent struct {
	Ev     string `json:"ev"`
	Kind   string `json:"kind"`
	Inst   string `json:"inst"`
	L      int    `json:"L"`
	T      int    `json:"t"`
	Policy string `json:"policy"`
	Res    string `json:"res"`
	Same   bool   `json:"same"`
	Count  int    `json:"count"`
	Size   int    `json:"size"`
}

func (in *Inst) writeAll() (data []byte, count int, size int, err error) {
	var buf bytes.Buffer
	size = -1
	switch in.Kind {
	case KPollard:
		size = in.P.SerializeSize()
		var n int64
		n, err = in.P.WriteTo(&buf)
		count = int(n)
	default:
		count, err = in.M.Write(&buf)
	}
	return buf.Bytes(), count, size, err
}

func (in *Inst) writeTo(w io.Writer) (int, error) {
	if in.Kind == KPollard {
		n, err := in.P.WriteTo(w)
		return int(n), err
	}
	return in.M.Write(w)
}

// restoreFrom builds a fresh instance of the same kind from r.
func (in *Inst) restoreFrom(r io.Reader) (*Inst, int, error) {
	out := &Inst{Name: in.Name, Kind: in.Kind, Rows: in.Rows, cached: copyCached(in.cached), stumpStack: in.stumpStack}
	switch in.Kind {
	case KPollard:
		n, p, err := utreexo.RestorePollardFrom(r)
		if err != nil {
			return nil, int(n), err
		}
		out.P = p
		return out, int(n), nil
	default:
		m := utreexo.NewMapPollard(in.Kind == KMapFull)
		n, err := m.Read(r)
		if err != nil {
			return nil, n, err
		}
		out.M = &m
		return out, n, nil
	}
}

// sameObservations compares two instances of the same kind observationally:
// leaf count, roots, the position of every leaf ever added, every position
// read, and the proofs of the tracked leaves (all together and one by one).
func (w *World) sameObservations(a, b *Inst, n uint64, tracked []int) (same bool, diff string) {
	pan := protect(func() {
		if a.numLeaves() != b.numLeaves() {
			diff = fmt.Sprintf("leaf count %d vs %d", a.numLeaves(), b.numLeaves())
			return
		}
		if !eqStrs(w.sy.Ts(a.roots()), w.sy.Ts(b.roots())) {
			diff = fmt.Sprintf("roots %v vs %v", w.sy.Ts(a.roots()), w.sy.Ts(b.roots()))
			return
		}
		if a.isMap() && a.M.TotalRows != b.M.TotalRows && a.Rows != 0 {
			diff = fmt.Sprintf("TotalRows %d vs %d", a.M.TotalRows, b.M.TotalRows)
			return
		}
		for s := 0; s < int(n); s++ {
			h := w.sy.H(leafTerm(s))
			pa, fa := a.acc().GetLeafPosition(h)
			pb, fb := b.acc().GetLeafPosition(h)
			if fa != fb || (fa && pa != pb) {
				diff = fmt.Sprintf("GetLeafPosition(L%d) %d,%v vs %d,%v", s, pa, fa, pb, fb)
				return
			}
		}
		R := treeRows(n)
		for pos := uint64(0); pos <= (uint64(1)<<(uint(R)+1))+2; pos++ {
			if a.acc().GetHash(pos) != b.acc().GetHash(pos) {
				diff = fmt.Sprintf("GetHash(%d) %s vs %s", pos, w.sy.T(a.acc().GetHash(pos)), w.sy.T(b.acc().GetHash(pos)))
				return
			}
		}
		if len(tracked) > 0 {
			hs := w.leafHashes(tracked)
			sets := [][]Hash{hs}
			for i := range hs {
				sets = append(sets, hs[i:i+1])
			}
			for _, q := range sets {
				p1, e1 := a.acc().Prove(q)
				p2, e2 := b.acc().Prove(q)
				if (e1 == nil) != (e2 == nil) {
					diff = fmt.Sprintf("Prove error %v vs %v", e1, e2)
					return
				}
				if e1 == nil && (!eqU64s(p1.Targets, p2.Targets) || !eqStrs(w.sy.Ts(p1.Proof), w.sy.Ts(p2.Proof))) {
					diff = "proofs differ"
					return
				}
			}
		}
		if a.Kind == KPollard {
			if len(a.P.NodeMap) != len(b.P.NodeMap) || a.P.NumDels != b.P.NumDels {
				diff = "tracked-leaf counters differ"
				return
			}
		} else if a.M.CachedLeaves.Length() != b.M.CachedLeaves.Length() {
			diff = "CachedLeaves.Length differs"
			return
		}
	})
	if pan != "" {
		return false, "panic while observing: " + pan
	}
	return diff == "", diff
}

func kindName(k Kind) string {
	switch k {
	case KPollard:
		return "pollard"
	case KMapFull:
		return "map.full"
	case KMapPart:
		return "map.part"
	}
	return "stump"
}

// roundTrip restores every forest from its own serialization under a reader
// policy chosen per (seed, step, instance) and continues on the restored
// instance; in serial mode it first runs the fault enumeration on the state.
func (w *World) roundTrip(n uint64, trackedOf func(in *Inst) []int) {
	for i, in := range w.insts {
		if in.Kind == KStump {
			continue
		}
		in := in
		pan := protect(func() {
			data, count, size, err := in.writeAll()
			if err != nil {
				w.fail([]string{"C13"}, in, "error", "writing failed: "+err.Error(), nil, nil)
				return
			}
			L := len(data)
			if count != L {
				w.fail([]string{"C13"}, in, "bytecount", "byte count reported by the writer", L, count)
			}
			if size >= 0 && size != L {
				w.fail([]string{"C13"}, in, "bytecount", "SerializeSize", L, size)
			}
			tracked := trackedOf(in)
			if w.serial {
				w.serialFaults(in, data, n, tracked)
			}
			policy := readerPolicies[int(w.seed+uint64(w.stepI)*7+uint64(i)*3)%len(readerPolicies)]
			// the stream is followed by other data (another record of the caller's file):
			// restoring must take exactly its own bytes out of the reader
			trailer := bytes.Repeat([]byte{0xa5, 0x5a, 0x17}, 40)
			if strings.Contains(policy, "dataeof") {
				trailer = nil // data-with-EOF marks the end of the reader's data
			}
			rd := &scriptedReader{data: append(append([]byte{}, data...), trailer...), policy: policy, rng: rand.New(rand.NewSource(int64(w.seed) + int64(i)))}
			out, rn, err := in.restoreFrom(rd)
			if err == nil && rd.pos != L {
				w.fail([]string{"C13"}, in, "bytecount.consumed", fmt.Sprintf("restoring a stream of %d bytes that is followed by other data took %d bytes out of the reader (reported: %d; reader policy %s)", L, rd.pos, rn, policy), L, rd.pos)
			}
			if err != nil {
				w.fail([]string{"C13"}, in, "error", fmt.Sprintf("restoring the complete stream (reader policy %s) failed: %v", policy, err), nil, nil)
				return
			}
			if rn != L {
				w.fail([]string{"C13"}, in, "bytecount", "byte count reported by the restore (reader policy "+policy+")", L, rn)
			}
			if same, diff := w.sameObservations(in, out, n, tracked); !same {
				w.fail([]string{"C13"}, in, "roundtrip", "restored instance differs from the original (reader policy "+policy+"): "+diff, nil, nil)
			}
			w.insts[i] = out
		})
		if pan != "" {
			w.fail([]string{"C13"}, in, "panic", "serialization panicked: "+pan, nil, nil)
		}
	}
}

func (w *World) logSerial(e serialEvent) {
	if w.evlog != nil {
		w.evlog(e)
	}
}

func (w *World) serialFaults(in *Inst, data []byte, n uint64, tracked []int) {
	L := len(data)
	props := []string{"C13"}
	kind := kindName(in.Kind)
	// every truncation point (t = L is the complete stream) under every policy
	for pi, policy := range readerPolicies {
		for t := 0; t <= L; t++ {
			rd := &scriptedReader{data: data[:t], policy: policy, rng: rand.New(rand.NewSource(int64(w.seed)*1000 + int64(t)))}
			var out *Inst
			var rn int
			var err error
			pan := protect(func() { out, rn, err = in.restoreFrom(rd) })
			ev := serialEvent{Ev: "restore", Kind: kind, Inst: in.Name, L: L, T: t, Policy: policy, Count: rn}
			w.nserial++
			switch {
			case pan != "":
				ev.Res = "panic"
				w.fail(props, in, "panic", fmt.Sprintf("restore panicked (stream of %d bytes cut at %d, reader policy %s): %s", L, t, policy, pan), nil, nil)
			case err != nil:
				ev.Res = "err"
				if t == L {
					w.fail(props, in, "complete.rejected", fmt.Sprintf("the complete stream (%d bytes) is rejected under reader policy %s: %v", L, policy, err), nil, nil)
				}
			default:
				ev.Res = "ok"
				same, diff := w.sameObservations(in, out, n, tracked)
				ev.Same = same
				if !same {
					cat := "prefix.accepted"
					what := fmt.Sprintf("a strict prefix (%d of %d bytes, reader policy %s) is accepted with a different state: %s", t, L, policy, diff)
					if t == L {
						cat = "roundtrip"
						what = fmt.Sprintf("the complete stream read with policy %s restores a different state: %s", policy, diff)
					}
					w.fail(props, in, cat, what, nil, nil)
				} else if t == L && rn != L {
					w.fail(props, in, "bytecount", "byte count reported by the restore (reader policy "+policy+")", L, rn)
				}
			}
			// log a sample of the ordinary events and every boundary one
			if ev.Res != "err" || t%17 == pi || t >= L-2 {
				w.logSerial(ev)
			}
		}
	}
	// the complete stream followed by other data: exactly L bytes may be taken
	for _, policy := range []string{"whole", "byte", "half", "random"} {
		trailer := bytes.Repeat([]byte{0xa5, 0x5a, 0x17}, 1400)
		rd := &scriptedReader{data: append(append([]byte{}, data...), trailer...), policy: policy, rng: rand.New(rand.NewSource(int64(w.seed)))}
		var rn int
		var err error
		pan := protect(func() { _, rn, err = in.restoreFrom(rd) })
		w.nserial++
		if pan != "" {
			w.fail(props, in, "panic", "restore of a stream followed by other data panicked: "+pan, nil, nil)
		} else if err != nil {
			w.fail(props, in, "complete.rejected", fmt.Sprintf("the complete stream (%d bytes) followed by other data is rejected under reader policy %s: %v", L, policy, err), nil, nil)
		} else if rd.pos != L || rn != L {
			w.fail(props, in, "bytecount.consumed", fmt.Sprintf("restoring a stream of %d bytes that is followed by other data took %d bytes out of the reader and reported %d (reader policy %s)", L, rd.pos, rn, policy), L, rd.pos)
		}
	}
	// every failure offset of the sink
	for _, partial := range []bool{false, true} {
		for f := 0; f <= L; f++ {
			fw := &failingWriter{limit: f, partial: partial}
			var cnt int
			var err error
			pan := protect(func() { cnt, err = in.writeTo(fw) })
			pol := "reject"
			if partial {
				pol = "partial"
			}
			ev := serialEvent{Ev: "write", Kind: kind, Inst: in.Name, L: L, T: f, Policy: pol, Count: cnt}
			w.nserial++
			switch {
			case pan != "":
				ev.Res = "panic"
				w.fail(props, in, "panic", fmt.Sprintf("writing to a sink that fails after %d bytes panicked: %s", f, pan), nil, nil)
			case err != nil:
				ev.Res = "err"
				if f == L {
					w.fail(props, in, "error", "writing to a sink with exactly enough room failed: "+err.Error(), nil, nil)
				}
			default:
				ev.Res = "ok"
				if f < L {
					w.fail(props, in, "sink.ignored", fmt.Sprintf("writing %d bytes to a sink that fails after %d bytes returned no error", L, f), nil, nil)
				} else if cnt != L {
					w.fail(props, in, "bytecount", "byte count reported by the writer", L, cnt)
				}
			}
			if ev.Res != "err" || f%23 == 0 || f >= L-1 {
				w.logSerial(ev)
			}
		}
	}
	w.storeScanFaults(in, props)
	// a sink that refuses exactly one Write call and accepts every later one: the failure
	// must still be reported (the first error is the result; a later success does not undo it)
	{
		cw := &onceFailingWriter{failAt: -1}
		in.writeTo(cw)
		ncalls := cw.calls
		for k := 0; k < ncalls; k++ {
			ow := &onceFailingWriter{failAt: k}
			var err error
			pan := protect(func() { _, err = in.writeTo(ow) })
			w.nserial++
			if pan != "" {
				w.fail(props, in, "panic", fmt.Sprintf("writing to a sink that refuses its Write call number %d panicked: %s", k, pan), nil, nil)
			} else if err == nil {
				w.fail(props, in, "sink.ignored", fmt.Sprintf("a sink refused Write call number %d of %d (and accepted the later ones) but the writer returned no error", k, ncalls), nil, nil)
			}
		}
	}
}

// storeScanFaults: a node store whose scan breaks off with an error (custom back-end):
// Write must not report success for the incomplete stream.
func (w *World) storeScanFaults(in *Inst, props []string) {
	if in.M == nil {
		return
	}
	on, ok := in.M.Nodes.(*orderedNodes)
	if !ok {
		return
	}
	total := on.Length()
	for k := 0; k < total; k++ {
		on.failScanAfter = k
		var buf bytes.Buffer
		var err error
		pan := protect(func() { _, err = in.M.Write(&buf) })
		on.failScanAfter = -1
		w.nserial++
		if pan != "" {
			w.fail(props, in, "panic", fmt.Sprintf("Write panicked when the node store's scan failed after %d entries: %s", k, pan), nil, nil)
		} else if err == nil {
			w.fail(props, in, "scan.ignored", fmt.Sprintf("the node store's scan failed after %d of %d entries but Write returned no error (%d bytes written)", k, total, buf.Len()), nil, nil)
		}
	}
}

// onceFailingWriter refuses the failAt-th Write call (0-based) and accepts all others.
type onceFailingWriter struct {
	calls  int
	failAt int
}

func (w *onceFailingWriter) Write(p []byte) (int, error) {
	w.calls++
	if w.calls-1 == w.failAt {
		return 0, errSink
	}
	return len(p), nil
}
