package main

import (
	"encoding/json"
	"fmt"
	"strconv"
)

// PosHash is a [row, idx, "term"] triple as emitted by the specification.
type PosHash struct {
	Row  uint8
	Idx  uint64
	Hash string
}

func (p *PosHash) UnmarshalJSON(b []byte) error {
	var raw []json.RawMessage
	if err := json.Unmarshal(b, &raw); err != nil {
		return err
	}
	if len(raw) != 3 {
		return fmt.Errorf("PosHash: want 3 elements, got %d", len(raw))
	}
	var r, i uint64
	if err := json.Unmarshal(raw[0], &r); err != nil {
		return err
	}
	if err := json.Unmarshal(raw[1], &i); err != nil {
		return err
	}
	if err := json.Unmarshal(raw[2], &p.Hash); err != nil {
		return err
	}
	p.Row, p.Idx = uint8(r), i
	return nil
}

func (p PosHash) MarshalJSON() ([]byte, error) {
	return json.Marshal([]any{p.Row, p.Idx, p.Hash})
}

func (p PosHash) RI() RI { return RI{p.Row, p.Idx} }

// JPos is a [row, idx] pair.
type JPos [2]uint64

func (p JPos) RI() RI { return RI{uint8(p[0]), p[1]} }

// JProof is a proof in specification terms: target positions (parallel to the
// requested leaves) and proof hashes as terms.
type JProof struct {
	T []JPos   `json:"t"`
	P []string `json:"p"`
}

type JUpd struct {
	Prev uint64    `json:"prev"`
	Td   []JPos    `json:"td"`
	Ndel []PosHash `json:"ndel"`
	Nadd []PosHash `json:"nadd"`
}

type Enc struct {
	Kind string  `json:"kind"`
	Junk int     `json:"junk"`
	A    []int   `json:"a,omitempty"`
	B    []int   `json:"b,omitempty"`
	Sup  []int   `json:"sup,omitempty"`
	Pa   *JProof `json:"pa,omitempty"`
	Pb   *JProof `json:"pb,omitempty"`
	Psup *JProof `json:"psup,omitempty"`
}

// Step is one action of a behaviour (union over all families).
type Step struct {
	A    string   `json:"a"`
	D    []int    `json:"d,omitempty"`
	K    int      `json:"k,omitempty"`
	Enc  *Enc     `json:"enc,omitempty"`
	Pf   *JProof  `json:"pf,omitempty"`
	Pre  []string `json:"pre,omitempty"`
	Post []string `json:"post,omitempty"`
	Upd  *JUpd    `json:"upd,omitempty"`
	S    []int    `json:"s,omitempty"`
	Rem  []int    `json:"rem,omitempty"`
	Bad  string   `json:"bad,omitempty"` // partial family: which hash of an honest proof is replaced (badvrem)
	Lab  []int    `json:"lab,omitempty"` // relabelling in force after the step (spec/Core.tla marks.lab)
	// light client / partial / proofops families
	Held  []int   `json:"held,omitempty"`
	Cp    *JProof `json:"cp,omitempty"`
	W     []int   `json:"w,omitempty"`
	Bs    []int   `json:"b,omitempty"`
	As    []int   `json:"as,omitempty"`
	Pfa   *JProof `json:"pfa,omitempty"`
	Pfb   *JProof `json:"pfb,omitempty"`
	N     uint64  `json:"n,omitempty"`
	Roots []string `json:"roots,omitempty"`
	// adversary family: the input domain of a state
	Live      []int    `json:"live,omitempty"`
	Alphabet  []string `json:"alphabet,omitempty"`
	Positions []JPos   `json:"positions,omitempty"`
	MaxClaim  int      `json:"maxclaim,omitempty"`
	MaxProof  int      `json:"maxproof,omitempty"`
}

// Expect is the expected observation after the step (union over families).
type Expect struct {
	N      uint64      `json:"n"`
	Roots  []string    `json:"roots"`
	Leaves [][3]uint64 `json:"leaves"`
	Nodes  []PosHash   `json:"nodes"`
	Pf     *JProof     `json:"pf,omitempty"`
	Trees  []int       `json:"trees,omitempty"`
	// light client
	Held []int `json:"held,omitempty"`
	// partial
	Cached []int   `json:"cached,omitempty"`
	Lower  []JPos  `json:"lower,omitempty"`
	Upper  []JPos  `json:"upper,omitempty"`
	Err    bool    `json:"err,omitempty"`
	Miss   []JPos  `json:"miss,omitempty"`
	Missm  []JPos  `json:"missm,omitempty"`
	Hs     []string `json:"hs,omitempty"`
	Pp     []JPos   `json:"pp,omitempty"`
}

type Line struct {
	Fam    string  `json:"fam"`
	Hist   []Step  `json:"hist"`
	Step   Step    `json:"step"`
	Expect Expect  `json:"expect"`
	G      json.RawMessage `json:"g,omitempty"` // geometry family payload
	raw    string
}

// parseTLCLine decodes one line printed by TLC's PrintT: a TLA+ string literal
// "@@{json}".  ok is false for lines that are not emissions.
func parseTLCLine(s string) (*Line, bool, error) {
	if len(s) < 4 || s[0] != '"' || s[1] != '@' || s[2] != '@' {
		// also accept raw json lines (replay files, tests)
		if len(s) > 0 && s[0] == '{' {
			var l Line
			if err := json.Unmarshal([]byte(s), &l); err != nil {
				return nil, true, err
			}
			l.raw = s
			return &l, true, nil
		}
		return nil, false, nil
	}
	u, err := strconv.Unquote(s)
	if err != nil {
		return nil, true, fmt.Errorf("unquote: %v", err)
	}
	u = u[2:]
	var l Line
	if err := json.Unmarshal([]byte(u), &l); err != nil {
		return nil, true, err
	}
	l.raw = u
	return &l, true, nil
}
