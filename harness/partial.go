package main

// Replay of the Partial family (spec/Partial.tla): C09.

import (
	"fmt"
	"sort"
	"sync/atomic"
	"time"

	"github.com/utreexo/utreexo"
)

func init() {
	families["partial"] = func(r *Runner, l *Line) lineResult { return r.replayPartial(l) }
}

func partialRows(tier string) []uint8 {
	if tier == "thorough" {
		return []uint8{0, 1, 2, 3, 4, 5, 8, 31, 62, 63}
	}
	return []uint8{0, 3, 63}
}

// counts the cases in which a refused call left a lock behind: two are enough to report
var lockLeftSeen atomic.Int32

func (r *Runner) replayPartial(l *Line) lineResult {
	if a := l.Step.A; lockLeftSeen.Load() >= 2 && !r.one && (a == "badundo" || a == "badmod" || a == "badvrem") {
		return lineResult{skipped: "refused calls already left a lock behind twice in this run"}
	}
	r.internLine(l)
	w := NewWorld(r.sy, WorldCfg{Rows: partialRows(r.cfg.Tier), Seed: r.cfg.Seed, MapPart: true})
	w.serial = r.serial
	w.evlog = r.logEvent
	w.pcached = map[int]bool{}
	steps := append(append([]Step{}, l.Hist...), l.Step)
	for i := range steps {
		w.stepI = i
		w.serial = r.serial && i == len(steps)-1
		if steps[i].A == "missq" {
			w.partialMissQ(&steps[i], &l.Expect)
			continue
		}
		w.partialStep(&steps[i])
		if w.lockLeft {
			// an instance no longer answers: nothing more can be asked
			return lineResult{fails: w.fails, calls: w.mon.ncalls, insts: len(w.insts), nontrivial: true}
		}
		if steps[i].A != "badundo" {
			w.checkRoots(steps[i].Post, "C01", "C09", "C05")
		}
	}
	if l.Step.A != "missq" && l.Step.A != "badundo" {
		w.partialCompare(&l.Expect)
	}
	st := &l.Step
	res := lineResult{fails: w.fails, calls: w.mon.ncalls, insts: len(w.insts),
		nontrivial: !(st.A == "mod" && len(st.D) == 0 && st.K == 0)}
	if w.nserial > 0 {
		res.extra = map[string]int{"fault_runs": w.nserial}
	}
	return res
}

func (w *World) partialStep(st *Step) {
	props := []string{"C09"}
	R := treeRows(w.n)
	var hashes []Hash
	var proof utreexo.Proof
	if st.Pf != nil {
		proof = utreexo.Proof{Targets: w.encTargets(st.Pf.T, R), Proof: w.sy.Hs(st.Pf.P)}
	}
	switch st.A {
	case "mod", "badmod":
		hashes = w.leafHashes(st.D)
	case "vrem", "ingest", "prune", "badvrem":
		hashes = w.leafHashes(st.S)
	case "undo":
		hashes = w.leafHashes(st.D)
		prevN := w.nStk[len(w.nStk)-1]
		proof = utreexo.Proof{Targets: w.encTargets(st.Pf.T, treeRows(prevN)), Proof: w.sy.Hs(st.Pf.P)}
		w.ctx["C06"] = true
	case "badundo":
		hashes = w.leafHashes(st.D)
		prevN := w.nStk[len(w.nStk)-1]
		proof = utreexo.Proof{Targets: w.encTargets(st.Pf.T, treeRows(prevN))} // the hashes are withheld
	}
	rem := map[int]bool{}
	for _, i := range st.Rem {
		rem[i] = true
	}
	if st.A == "restore" {
		w.ctx["C13"] = true
		tracked := []int{}
		for s := range w.pcached {
			tracked = append(tracked, s)
		}
		sort.Ints(tracked)
		w.roundTrip(w.n, func(in *Inst) []int { return tracked })
		return
	}
	// the abstract set of remembered leaves, followed along the steps
	switch st.A {
	case "mod":
		for _, d := range st.D {
			delete(w.pcached, d)
		}
		for i := range rem {
			w.pcached[int(w.n)+i] = true
		}
	case "vrem", "ingest":
		for _, s := range st.S {
			w.pcached[s] = true
		}
	case "prune":
		for _, s := range st.S {
			delete(w.pcached, s)
		}
	case "undo":
		prevN := w.nStk[len(w.nStk)-1]
		for s := range w.pcached {
			if uint64(s) >= prevN {
				delete(w.pcached, s)
			}
		}
		for _, d := range st.D {
			w.pcached[d] = true
		}
	case "fromroots":
		w.pcached = map[int]bool{}
	}
	for idx, in := range w.insts {
		in := in
		g := w.mon.begin(in, st.A)
		// a caller that decodes every message into the same buffers: the arguments of consecutive
		// calls share their backing arrays (instance map.part.63.reuse)
		gH, gU := g.H, g.U
		if in.bufReuse {
			gH, gU = in.reuseH, in.reuseU
		}
		var err error
		pan := protect(func() {
			switch st.A {
			case "mod":
				leaves := make([]utreexo.Leaf, st.K)
				for i := range leaves {
					leaves[i] = utreexo.Leaf{Hash: w.sy.H(leafTerm(int(w.n) + i)), Remember: rem[i]}
				}
				err = in.M.Modify(g.L("adds", leaves), gH("delHashes", hashes),
					utreexo.Proof{Targets: gU("proof.Targets", proof.Targets), Proof: gH("proof.Proof", proof.Proof)})
			case "badmod":
				// a block that deletes a leaf the instance does not remember: it must be refused
				leaves := make([]utreexo.Leaf, st.K)
				for i := range leaves {
					leaves[i] = utreexo.Leaf{Hash: w.sy.H(leafTerm(int(w.n) + i)), Remember: true}
				}
				e := in.M.Modify(g.L("adds", leaves), gH("delHashes", hashes),
					utreexo.Proof{Targets: gU("proof.Targets", proof.Targets), Proof: gH("proof.Proof", proof.Proof)})
				if e == nil {
					w.fail(props, in, "badmod.accepted", "a block deleting a leaf that the partial forest does not remember was applied", "error", "nil")
				}
			case "badvrem":
				// an honest proof with one hash replaced: both remembering verifications must refuse it
				bh := append([]Hash{}, hashes...)
				bp := append([]Hash{}, proof.Proof...)
				if st.Bad == "leafhash" {
					bh[0] = w.sy.H(junkTerm(7))
				} else {
					bp[0] = w.sy.H(junkTerm(7))
				}
				if e := in.M.Verify(gH("delHashes", bh), utreexo.Proof{Targets: gU("proof.Targets", proof.Targets), Proof: gH("proof.Proof", bp)}, true); e == nil {
					w.fail([]string{"C03"}, in, "unsound", "Verify(remember) accepted a proof in which the "+st.Bad+" was replaced by a fresh value", "error", "nil")
				}
				// the partial entry point: the hashes for the positions the instance says it lacks
				sorted := append([]uint64{}, proof.Targets...)
				sort.Slice(sorted, func(a, b int) bool { return sorted[a] < sorted[b] })
				missing := in.M.GetMissingPositions(sorted)
				all, _ := utreexo.ProofPositions(sorted, w.n, R)
				if in.M.TotalRows != R {
					for i := range all {
						all[i] = utreexo.VerifTranslatePos(all[i], R, in.M.TotalRows)
					}
				}
				var ph []Hash
				for _, mpos := range missing {
					for i, ap := range all {
						if ap == mpos && i < len(bp) {
							ph = append(ph, bp[i])
						}
					}
				}
				if len(ph) == len(missing) && (st.Bad == "leafhash" || (len(missing) > 0 && all[0] == missing[0])) {
					if e := in.M.VerifyPartialProof(gU("targets", proof.Targets), gH("hashes", bh), gH("proofHashes", ph), true); e == nil {
						w.fail([]string{"C03"}, in, "unsound", "VerifyPartialProof(remember) accepted a proof in which the "+st.Bad+" was replaced by a fresh value", "error", "nil")
					}
				}
			case "badundo":
				// refused or not, the call must return and leave the forest usable (checked below)
				_ = in.M.Undo(uint64(st.K), utreexo.Proof{Targets: gU("proof.Targets", proof.Targets)},
					gH("delHashes", hashes), gH("prevRoots", w.sy.Hs(st.Pre)))
			case "vrem":
				err = in.M.Verify(gH("delHashes", hashes),
					utreexo.Proof{Targets: gU("proof.Targets", proof.Targets), Proof: gH("proof.Proof", proof.Proof)}, true)
			case "ingest":
				err = in.M.Ingest(gH("delHashes", hashes),
					utreexo.Proof{Targets: gU("proof.Targets", proof.Targets), Proof: gH("proof.Proof", proof.Proof)})
			case "prune":
				err = in.M.Prune(gH("hashes", hashes))
			case "undo":
				err = in.M.Undo(uint64(st.K),
					utreexo.Proof{Targets: gU("proof.Targets", proof.Targets), Proof: gH("proof.Proof", proof.Proof)},
					gH("delHashes", hashes), gH("prevRoots", w.sy.Hs(st.Pre)))
			case "fromroots":
				m := utreexo.NewMapPollardFromRoots(w.sy.Hs(st.Roots), st.N, false)
				w.insts[idx] = &Inst{Name: "map.fromroots.63", Kind: KMapPart, Rows: 63, M: &m, cached: map[int]bool{}}
			default:
				panic("unknown partial step " + st.A)
			}
		})
		g.end()
		if pan != "" {
			w.fail(props, in, "panic", st.A+" panicked: "+pan, nil, nil)
		} else if err != nil {
			w.fail(props, in, "error", st.A+" failed: "+err.Error(), nil, nil)
		}
		if st.A == "badmod" || st.A == "badvrem" || st.A == "badundo" {
			// a call that refuses its input must not leave a lock behind: a reader and a
			// writer are still served afterwards
			m := in.M
			done := make(chan struct{})
			go func() {
				defer func() { recover(); close(done) }()
				m.GetNumLeaves()
				m.Prune(nil)
			}()
			select {
			case <-done:
			case <-time.After(15 * time.Second):
				w.lockLeft = true
				lockLeftSeen.Add(1)
				w.fail([]string{"C12"}, in, "lockleft", "after the refused "+st.A+" the forest no longer answers: GetNumLeaves / Prune did not return within 15s (a lock was left behind)", nil, nil)
			}
		}
	}
	switch st.A {
	case "mod":
		w.nStk = append(w.nStk, w.n)
		w.n += uint64(st.K)
	case "undo":
		w.n = w.nStk[len(w.nStk)-1]
		w.nStk = w.nStk[:len(w.nStk)-1]
	case "fromroots":
		w.nStk = nil
	}
}

// partialCompare checks the stored state of every instance against the
// specification's relation.
func (w *World) partialCompare(exp *Expect) {
	props := []string{"C09"}
	R := treeRows(exp.N)
	nodeAt := map[RI]string{}
	for _, nd := range exp.Nodes {
		nodeAt[nd.RI()] = nd.Hash
	}
	lower := map[RI]bool{}
	upper := map[RI]bool{}
	for _, p := range exp.Lower {
		lower[p.RI()] = true
	}
	for _, p := range exp.Upper {
		upper[p.RI()] = true
	}
	cachedPos := map[string]RI{}
	for _, lf := range exp.Leaves {
		cachedPos[leafTerm(int(lf[0]))] = RI{uint8(lf[1]), lf[2]}
	}
	for _, in := range w.insts {
		in := in
		pan := protect(func() {
			T := in.M.TotalRows
			if T < R {
				w.fail(props, in, "rows", "TotalRows smaller than the rows the forest needs", R, T)
				return
			}
			// 1. the leaf index is exact
			got := map[string]uint64{}
			in.M.CachedLeaves.ForEach(func(h Hash, pos uint64) error {
				got[w.sy.T(h)] = pos
				return nil
			})
			for t, p := range cachedPos {
				gp, ok := got[t]
				if !ok {
					w.fail(props, in, "cached.missing", "remembered leaf "+t+" is not in CachedLeaves", nil, nil)
				} else if gp != enc(p, T) {
					w.fail(props, in, "cached.pos", "CachedLeaves position of "+t, enc(p, T), gp)
				}
			}
			for t, gp := range got {
				if _, ok := cachedPos[t]; !ok {
					w.fail(props, in, "cached.extra", fmt.Sprintf("CachedLeaves holds %s (at %d) which is not a remembered live leaf", t, gp), nil, nil)
				}
			}
			// 2. stored positions: true hashes, within the bounds
			stored := map[RI]bool{}
			in.M.Nodes.ForEach(func(pos uint64, lf utreexo.Leaf) error {
				ri, ok := dec(pos, T)
				if !ok {
					w.fail(props, in, "stored.badpos", fmt.Sprintf("stored position %d is not a position of a %d-row forest", pos, T), nil, nil)
					return nil
				}
				stored[ri] = true
				want, ok := nodeAt[ri]
				if !ok {
					want = "0"
				}
				if gt := w.sy.T(lf.Hash); gt != want {
					w.fail(props, in, "stored.hash", fmt.Sprintf("hash stored at %v", ri), want, gt)
				}
				if !upper[ri] {
					w.fail(props, in, "stored.extra", fmt.Sprintf("position %v is stored but is neither a root, a remembered leaf nor on a remembered leaf's proof path", ri), nil, nil)
				}
				return nil
			})
			for ri := range lower {
				if !stored[ri] {
					w.fail(props, in, "stored.missing", fmt.Sprintf("position %v is needed (root, remembered leaf or proof sibling) but not stored", ri), nil, nil)
				}
			}
			// 3. the canonical proof of everything remembered, and of each leaf alone
			pprops := append(append([]string{}, props...), "C02") // provability of what it remembers is also C02
			if len(exp.Cached) > 0 {
				hs := w.leafHashes(exp.Cached)
				g := w.mon.begin(in, "Prove")
				pr, err := in.M.Prove(g.H("hashes", hs))
				g.end()
				if err != nil {
					w.fail(pprops, in, "prove.error", "cannot prove its remembered leaves: "+err.Error(), nil, nil)
				} else {
					w.mon.retainProof(in, "Prove result", &pr)
					if want := w.encTargets(exp.Pf.T, R); !eqU64s(pr.Targets, want) {
						w.fail(pprops, in, "prove.targets", "Prove(cached).Targets", want, pr.Targets)
					}
					if gp := w.sy.Ts(pr.Proof); !eqStrs(gp, exp.Pf.P) {
						w.fail(pprops, in, "prove.proof", "Prove(cached).Proof", exp.Pf.P, gp)
					}
				}
				stump := utreexo.Stump{Roots: w.sy.Hs(exp.Roots), NumLeaves: exp.N}
				for i, s := range exp.Cached {
					one, err := in.M.Prove(hs[i : i+1])
					if err != nil {
						w.fail(pprops, in, "prove.error", fmt.Sprintf("cannot prove remembered leaf L%d alone: %v", s, err), nil, nil)
						continue
					}
					if want := enc(cachedPos[leafTerm(s)], R); len(one.Targets) != 1 || one.Targets[0] != want {
						w.fail(pprops, in, "prove.targets", fmt.Sprintf("Prove(L%d).Targets", s), want, one.Targets)
					}
					for _, h := range one.Proof {
						if t := w.sy.T(h); t[0] == '?' || t == "0" {
							w.fail(pprops, in, "prove.proof", fmt.Sprintf("Prove(L%d) contains a hash that is no node of the forest", s), nil, t)
						}
					}
					if _, err := utreexo.Verify(stump, hs[i:i+1], one); err != nil {
						w.fail(pprops, in, "prove.verify", fmt.Sprintf("proof of remembered leaf L%d does not verify: %v", s, err), nil, nil)
					}
				}
			}
			// 4. reads: the true hash or nothing
			var maxPos uint64 = (uint64(1) << (uint(R) + 1)) + 4
			for pos := uint64(0); pos <= maxPos; pos++ {
				want := "0"
				if ri, ok := dec(pos, R); ok {
					if t, ok := nodeAt[ri]; ok {
						want = t
					}
				}
				if gt := w.sy.T(in.M.GetHash(pos)); gt != want && gt != "0" {
					cat := "gethash"
					if want == "0" && !posInForest(pos, exp.N) {
						if ri2, ok := dec(aliasOf(pos, R, T), T); ok && nodeAt[ri2] == gt {
							cat = "gethash.alias"
						}
					}
					w.fail([]string{"C10"}, in, cat, fmt.Sprintf("GetHash(%d)", pos), want, gt)
				}
			}
			// 5. look-ups
			for s := 0; s < int(exp.N); s++ {
				p, tracked := cachedPos[leafTerm(s)]
				pos, found := in.M.GetLeafPosition(w.sy.H(leafTerm(s)))
				if found != tracked {
					w.fail([]string{"C10"}, in, "leafpos.found", fmt.Sprintf("GetLeafPosition(L%d) found", s), tracked, found)
				} else if found && pos != enc(p, R) {
					w.fail([]string{"C10"}, in, "leafpos", fmt.Sprintf("GetLeafPosition(L%d)", s), enc(p, R), pos)
				}
			}
			if in.M.CachedLeaves.Length() != len(exp.Cached) {
				w.fail([]string{"C10"}, in, "count", "CachedLeaves.Length()", len(exp.Cached), in.M.CachedLeaves.Length())
			}
		})
		if pan != "" {
			w.fail(props, in, "panic", "inspection panicked: "+pan, nil, nil)
		}
	}
}

var _ = sort.Ints

// partialMissQ: which proof positions does the instance lack for proving the
// live leaves st.S (C14)?  Exactly the canonical proof positions it does not
// store; supplying the true hashes there must make VerifyPartialProof accept.
func (w *World) partialMissQ(st *Step, exp *Expect) {
	props := []string{"C14"}
	R := treeRows(exp.N)
	nodeAt := map[RI]string{}
	for _, nd := range exp.Nodes {
		nodeAt[nd.RI()] = nd.Hash
	}
	lower := map[RI]bool{}
	upper := map[RI]bool{}
	for _, p := range exp.Lower {
		lower[p.RI()] = true
	}
	for _, p := range exp.Upper {
		upper[p.RI()] = true
	}
	targets := w.encTargets(st.Pf.T, R)
	hashes := w.leafHashes(st.S)
	for _, in := range w.insts {
		in := in
		pan := protect(func() {
			T := in.M.TotalRows
			stored := map[RI]bool{}
			in.M.Nodes.ForEach(func(pos uint64, lf utreexo.Leaf) error {
				if ri, ok := dec(pos, T); ok {
					stored[ri] = true
				}
				return nil
			})
			want := []uint64{}
			wantH := []Hash{}
			for _, p := range exp.Pp {
				ri := p.RI()
				if stored[ri] {
					continue
				}
				if lower[ri] {
					w.fail([]string{"C09"}, in, "stored.missing", fmt.Sprintf("position %v is needed but not stored", ri), nil, nil)
				}
				want = append(want, enc(ri, R))
				t, ok := nodeAt[ri]
				if !ok {
					t = "0"
				}
				wantH = append(wantH, w.sy.H(t))
			}
			// pp is sorted by (row, idx), which is the numeric order
			g := w.mon.begin(in, "MapPollard.GetMissingPositions")
			got := in.M.GetMissingPositions(g.U("targets", targets))
			g.end()
			if !eqU64s(sortedU64(got), sortedU64(want)) {
				w.fail(props, in, "missing.map", fmt.Sprintf("MapPollard.GetMissingPositions(%v)", targets), sortedU64(want), sortedU64(got))
				return
			}
			g = w.mon.begin(in, "VerifyPartialProof")
			err := in.M.VerifyPartialProof(g.U("targets", targets), g.H("delHashes", hashes), g.H("proofHashes", wantH), false)
			g.end()
			if err != nil {
				w.fail(props, in, "missing.verify", fmt.Sprintf("VerifyPartialProof(%v) rejects the true hashes at the missing positions %v: %v", targets, want, err), nil, nil)
			}
			// a wrong hash at a missing position must be rejected (C03)
			if len(wantH) > 0 {
				bad := append([]Hash{}, wantH...)
				bad[len(bad)-1] = w.sy.H(junkTerm(7))
				if err := in.M.VerifyPartialProof(targets, hashes, bad, false); err == nil {
					w.fail([]string{"C03"}, in, "missing.unsound", fmt.Sprintf("VerifyPartialProof(%v) accepts a fresh hash at missing position %d", targets, want[len(want)-1]), nil, nil)
				}
			}
		})
		if pan != "" {
			w.fail(props, in, "panic", "missing-position query panicked: "+pan, nil, nil)
		}
	}
}
