package main

// Replay of behaviours of the LightClient family (spec/LightClient.tla):
// C07 (cached proof updated from block data) and C08 (cached proof undone).

import (
	"fmt"
	"sort"

	"github.com/utreexo/utreexo"
)

func init() {
	families["light"] = func(r *Runner, l *Line) lineResult { return r.replayLight(l) }
}

type lightClient struct {
	S      utreexo.Stump
	P      utreexo.Proof
	H      []Hash
	stumps []utreexo.Stump
	full   *utreexo.Pollard // a full prover following along (cross-check)
}

type pairT struct {
	Hash string
	Pos  uint64
}

func sortPairs(ps []pairT) {
	sort.Slice(ps, func(i, j int) bool {
		if ps[i].Pos != ps[j].Pos {
			return ps[i].Pos < ps[j].Pos
		}
		return ps[i].Hash < ps[j].Hash
	})
}

func eqPairs(a, b []pairT) bool {
	if len(a) != len(b) {
		return false
	}
	for i := range a {
		if a[i] != b[i] {
			return false
		}
	}
	return true
}

func (r *Runner) replayLight(l *Line) lineResult {
	r.internLine(l)
	w := NewWorld(r.sy, WorldCfg{Seed: r.cfg.Seed})
	lc := &lightClient{}
	p := utreexo.NewAccumulator()
	lc.full = &p
	if r.sy.prefix {
		// leaf hashes that share their first 12 bytes: the pointer forest keys its leaf
		// index by that prefix (by design) and cannot follow along
		lc.full = nil
	}
	in := &Inst{Name: "lightclient", Kind: KStump}
	steps := append(append([]Step{}, l.Hist...), l.Step)
	for i := range steps {
		w.stepI = i
		st := &steps[i]
		switch st.A {
		case "block":
			w.lightBlock(in, lc, st)
		case "undoblock":
			w.lightUndo(in, lc, st)
		case "restrict":
			w.lightRestrict(in, lc, st)
		default:
			panic("unknown light step " + st.A)
		}
	}
	res := lineResult{fails: w.fails, calls: w.mon.ncalls, insts: 1,
		nontrivial: l.Step.A == "undoblock" || len(l.Step.D) > 0 || l.Step.K > 0}
	// large cached proofs against the full prover, once per run (option lightbig=1)
	if optVal(r.extra, "lightbig", "") == "1" {
		lb := func() {
			res.calls += lightBig(func(props []string, cat, what string) {
				res.fails = append(res.fails, Fail{Props: props, Inst: "lightclient.big", Cat: cat, What: what, Step: len(l.Hist)})
			})
		}
		if r.one {
			lb()
		} else {
			lightBigOnce.Do(lb)
		}
	}
	// the same undo with a very large block (the result of undoing a block
	// does not depend on how many leaves the block added)
	big := 0
	fmt.Sscan(optVal(r.extra, "big", "0"), &big)
	if big > 0 && l.Step.A == "undoblock" && len(l.Hist) > 0 && l.Hist[len(l.Hist)-1].A == "block" && (r.one || lineHash(l.raw)%uint64(big) == 0) {
		w2 := r.lightBigUndo(l)
		res.fails = append(res.fails, w2.fails...)
		res.calls += w2.mon.ncalls
		res.extra = map[string]int{"big_block_undos": 1}
	}
	return res
}

// lightBigUndo replays the history up to the block that the last step undoes,
// applies that block with 65536 more additions (same deletions, same remember
// indexes) through the real Stump.Update / Proof.Update pipeline, and undoes
// it with that block's data.  What the client must hold afterwards is the
// expectation of the undo step: it does not depend on the number of additions.
func (r *Runner) lightBigUndo(l *Line) *World {
	const extra = 65536
	w := NewWorld(r.sy, WorldCfg{Seed: r.cfg.Seed})
	lc := &lightClient{}
	p := utreexo.NewAccumulator()
	lc.full = &p
	in := &Inst{Name: "lightclient.bigblock", Kind: KStump}
	for i := 0; i < len(l.Hist)-1; i++ {
		w.stepI = i
		st := &l.Hist[i]
		if st.A == "block" {
			w.lightBlock(in, lc, st)
		} else {
			w.lightUndo(in, lc, st)
		}
	}
	if len(w.fails) > 0 {
		// the ordinary replay reports these
		w.fails = nil
		return w
	}
	w.fails = nil
	props := []string{"C08"}
	blk := &l.Hist[len(l.Hist)-1]
	und := &l.Step
	w.stepI = len(l.Hist)
	ba := w.blockArgs(blk)
	K := blk.K + extra
	for i := blk.K; i < K; i++ {
		ba.adds = append(ba.adds, w.sy.H(leafTerm(int(w.n)+i)))
	}
	prev := utreexo.Stump{Roots: append([]Hash{}, lc.S.Roots...), NumLeaves: lc.S.NumLeaves}
	rem := make([]uint32, len(blk.Rem))
	for i, x := range blk.Rem {
		rem[i] = uint32(x)
	}
	// the client also remembers the first 700 of the extra additions (they are gone again after the
	// undo, so the expectation of the undo step is unchanged): hundreds of remembered additions in one block
	for i := blk.K; i < blk.K+700; i++ {
		rem = append(rem, uint32(i))
	}
	var ud utreexo.UpdateData
	var err error
	var newH []Hash
	pan := protect(func() {
		ud, err = lc.S.Update(ba.dels, ba.adds, utreexo.Proof{Targets: ba.targets, Proof: ba.proof})
		if err != nil {
			return
		}
		newH, err = lc.P.Update(lc.H, ba.adds, ba.targets, rem, ud)
	})
	if pan != "" || err != nil {
		w.fail([]string{"C07"}, in, "error", fmt.Sprintf("block with %d additions failed: %v %s", K, err, pan), nil, nil)
		return w
	}
	lc.H = newH
	// after the very large block the cached proof verifies against the new state and is what a
	// full prover gives for the same leaves
	{
		what := fmt.Sprintf("after Proof.Update for a block with %d additions", K)
		w.lightVerify(in, lc, []string{"C07"}, what)
		leaves := make([]utreexo.Leaf, len(ba.adds))
		for i, a := range ba.adds {
			leaves[i] = utreexo.Leaf{Hash: a}
		}
		if lc.full != nil && len(lc.H) > 0 {
			if e := lc.full.Modify(leaves, ba.dels, utreexo.Proof{Targets: ba.targets, Proof: ba.proof}); e == nil {
				fp, e := lc.full.Prove(lc.H)
				if e != nil {
					w.fail([]string{"C07"}, in, "hold.fullprover", what+": the full prover cannot prove the held leaves: "+e.Error(), nil, nil)
				} else if !eqU64s(fp.Targets, lc.P.Targets) || len(fp.Proof) != len(lc.P.Proof) {
					w.fail([]string{"C07"}, in, "hold.fullprover", what+": the cached proof differs from the full prover's proof (targets / number of hashes)",
						[]any{fp.Targets, len(fp.Proof)}, []any{lc.P.Targets, len(lc.P.Proof)})
				} else {
					for i := range fp.Proof {
						if fp.Proof[i] != lc.P.Proof[i] {
							w.fail([]string{"C07"}, in, "hold.fullprover", what+fmt.Sprintf(": proof hash %d differs from the full prover's", i), nil, nil)
							break
						}
					}
				}
			}
		}
	}
	nBig := w.big(w.n + uint64(K))
	Rprev := w.rows(w.n)
	var undone []Hash
	pan = protect(func() {
		undone, err = lc.P.Undo(uint64(K), nBig, ba.targets, ba.dels, lc.H, ud.ToDestroy, utreexo.Proof{Targets: ba.targets, Proof: ba.proof})
	})
	if pan != "" {
		w.fail(props, in, "panic", fmt.Sprintf("Proof.Undo of a block with %d additions panicked: %s", K, pan), nil, nil)
		return w
	}
	if err != nil {
		w.fail(props, in, "error", fmt.Sprintf("Proof.Undo of a block with %d additions failed: %v", K, err), nil, nil)
		return w
	}
	lc.H = undone
	lc.S = prev
	what := fmt.Sprintf("after Proof.Undo of the block with %d additions", K)
	w.compareHolding(in, lc, und, Rprev, props, what)
	w.lightVerify(in, lc, props, what)
	return w
}

func specUpdateData(w *World, st *Step) utreexo.UpdateData {
	Rpre := w.rows(st.Upd.Prev)
	Rpost := w.rows(st.Upd.Prev + uint64(st.K))
	ud := utreexo.UpdateData{PrevNumLeaves: w.big(st.Upd.Prev), ToDestroy: w.encTargets(st.Upd.Td, Rpost)}
	for _, x := range st.Upd.Ndel {
		ud.NewDelPos = append(ud.NewDelPos, w.encR(x.RI(), Rpre))
		ud.NewDelHash = append(ud.NewDelHash, w.sy.H(x.Hash))
	}
	for _, x := range st.Upd.Nadd {
		ud.NewAddPos = append(ud.NewAddPos, w.encR(x.RI(), Rpost))
		ud.NewAddHash = append(ud.NewAddHash, w.sy.H(x.Hash))
	}
	return ud
}

// compareHolding compares what the client holds with the specification:
// pairs (leaf hash, position) as a set, proof hashes as a sequence.
func (w *World) compareHolding(in *Inst, lc *lightClient, st *Step, R uint8, props []string, what string) bool {
	ok := true
	var got, exp []pairT
	if len(lc.H) != len(lc.P.Targets) {
		w.fail(props, in, "hold.len", what+": cached hashes and targets differ in length", len(lc.P.Targets), len(lc.H))
		return false
	}
	for i := range lc.H {
		got = append(got, pairT{w.sy.T(lc.H[i]), lc.P.Targets[i]})
	}
	for i, s := range st.Held {
		exp = append(exp, pairT{leafTerm(s), w.encR(st.Cp.T[i].RI(), R)})
	}
	sortPairs(got)
	sortPairs(exp)
	if !eqPairs(got, exp) {
		w.fail(props, in, "hold.pairs", what+": held (leaf, position) pairs", exp, got)
		ok = false
	}
	if gp := w.sy.Ts(lc.P.Proof); !eqStrs(gp, st.Cp.P) {
		w.fail(props, in, "hold.proof", what+": cached proof hashes", st.Cp.P, gp)
		ok = false
	}
	return ok
}

func (w *World) lightBlock(in *Inst, lc *lightClient, st *Step) {
	props := []string{"C07"}
	ba := w.blockArgs(st)
	R2 := w.rows(w.n + uint64(st.K))
	lc.stumps = append(lc.stumps, utreexo.Stump{Roots: append([]Hash{}, lc.S.Roots...), NumLeaves: lc.S.NumLeaves})

	// 1. verifier-state update
	g := w.mon.begin(in, "Stump.Update")
	dels := g.H("delHashes", ba.dels)
	adds := g.H("addHashes", ba.adds)
	tg := g.U("proof.Targets", ba.targets)
	pf := g.H("proof.Proof", ba.proof)
	var ud utreexo.UpdateData
	var err error
	pan := protect(func() { ud, err = lc.S.Update(dels, adds, utreexo.Proof{Targets: tg, Proof: pf}) })
	g.end()
	if pan != "" || err != nil {
		w.fail([]string{"C01"}, in, "error", fmt.Sprintf("Stump.Update failed: %v %s", err, pan), nil, nil)
		w.n += uint64(st.K)
		w.nStk = append(w.nStk, w.n-uint64(st.K))
		return
	}
	w.mon.retainUpd(in, "UpdateData", &ud)

	// diagnostic twin: the same update fed with the specification's update data
	twin := lightClient{P: utreexo.Proof{Targets: append([]uint64{}, lc.P.Targets...), Proof: append([]Hash{}, lc.P.Proof...)},
		H: append([]Hash{}, lc.H...)}

	// 2. cached-proof update from the block data alone
	rem := make([]uint32, len(st.Rem))
	for i, x := range st.Rem {
		rem[i] = uint32(x)
	}
	g = w.mon.begin(in, "Proof.Update")
	ch := g.H("cachedHashes", lc.H)
	ah := g.H("addHashes", ba.adds)
	bt := g.U("blockTargets", ba.targets)
	rm := g.U32("remembers", rem)
	var newH []Hash
	pan = protect(func() { newH, err = lc.P.Update(ch, ah, bt, rm, ud) })
	g.end()
	w.n += uint64(st.K)
	w.nStk = append(w.nStk, w.n-uint64(st.K))
	if pan != "" {
		w.fail(props, in, "panic", "Proof.Update panicked: "+pan, nil, nil)
		return
	}
	if err != nil {
		w.fail(props, in, "error", "Proof.Update failed: "+err.Error(), nil, nil)
		return
	}
	lc.H = newH
	w.mon.retainH(in, "cached hashes", newH)
	w.mon.retainProof(in, "cached proof", &lc.P)

	ok := w.compareHolding(in, lc, st, R2, props, "after Proof.Update")
	if !ok {
		var tH []Hash
		terr := protect(func() { tH, _ = twin.P.Update(twin.H, ba.adds, ba.targets, rem, specUpdateData(w, st)) })
		twin.H = tH
		same := terr == "" && len(twin.H) == len(lc.H) && eqU64s(twin.P.Targets, lc.P.Targets) && eqStrs(w.sy.Ts(twin.P.Proof), w.sy.Ts(lc.P.Proof))
		note := "diagnostic: with the specification's update data the result is "
		if same {
			note += "the same (defect in the proof update itself)"
		} else {
			note += "different (consequence of wrong update data)"
		}
		w.fails[len(w.fails)-1].What += " [" + note + "]"
	}

	// 3. the proof must verify against the new state
	w.lightVerify(in, lc, props, "after Proof.Update")

	// 4. and equal what a full prover emits for the same leaves
	leaves := make([]utreexo.Leaf, len(ba.adds))
	for i, a := range ba.adds {
		leaves[i] = utreexo.Leaf{Hash: a}
	}
	if lc.full == nil {
	} else if e := lc.full.Modify(leaves, ba.dels, utreexo.Proof{Targets: ba.targets, Proof: ba.proof}); e == nil && len(lc.H) > 0 {
		fp, e := lc.full.Prove(lc.H)
		if e != nil {
			w.fail(props, in, "hold.fullprover", "full prover cannot prove the held leaves: "+e.Error(), nil, nil)
		} else if !eqU64s(fp.Targets, lc.P.Targets) || !eqStrs(w.sy.Ts(fp.Proof), w.sy.Ts(lc.P.Proof)) {
			w.fail(props, in, "hold.fullprover", "cached proof differs from the full prover's proof",
				[]any{fp.Targets, w.sy.Ts(fp.Proof)}, []any{lc.P.Targets, w.sy.Ts(lc.P.Proof)})
		}
	}
	if got := w.sy.Ts(lc.S.Roots); !eqStrs(got, w.withHigh(st.Post)) {
		w.fail([]string{"C01"}, in, "roots", "stump roots", w.withHigh(st.Post), got)
	}
}

func (w *World) lightVerify(in *Inst, lc *lightClient, props []string, what string) {
	g := w.mon.begin(in, "Verify")
	hs := g.H("delHashes", lc.H)
	tg := g.U("proof.Targets", lc.P.Targets)
	pf := g.H("proof.Proof", lc.P.Proof)
	var err error
	pan := protect(func() { _, err = utreexo.Verify(lc.S, hs, utreexo.Proof{Targets: tg, Proof: pf}) })
	g.end()
	if pan != "" {
		w.fail(props, in, "panic", what+": Verify panicked: "+pan, nil, nil)
	} else if err != nil {
		w.fail(props, in, "hold.verify", what+": the cached proof does not verify: "+err.Error(), nil, nil)
	}
}

func (w *World) lightUndo(in *Inst, lc *lightClient, st *Step) {
	props := []string{"C08"}
	w.ctx["C08"] = true
	prevN := w.nStk[len(w.nStk)-1]
	w.nStk = w.nStk[:len(w.nStk)-1]
	Rprev := w.rows(prevN)
	Rcur := w.rows(w.n)
	dels := w.leafHashes(st.D)
	targets := w.encTargets(st.Pf.T, Rprev)
	proofH := w.sy.Hs(st.Pf.P)
	toDestroy := w.encTargets(st.Upd.Td, Rcur)

	g := w.mon.begin(in, "Proof.Undo")
	dl := g.U("dels", targets)
	dh := g.H("delHashes", dels)
	ch := g.H("cachedHashes", lc.H)
	td := g.U("toDestroy", toDestroy)
	bt := g.U("proof.Targets", targets)
	bp := g.H("proof.Proof", proofH)
	var newH []Hash
	var err error
	// a second cached proof holding the same leaves (another wallet fed from the same block
	// data): it is undone after the first one, with the very same slices
	twin := &lightClient{P: utreexo.Proof{Targets: append([]uint64{}, lc.P.Targets...), Proof: append([]Hash{}, lc.P.Proof...)}, H: append([]Hash{}, lc.H...)}
	nBefore := w.big(w.n)
	pan := protect(func() {
		newH, err = lc.P.Undo(uint64(st.K), nBefore, dl, dh, ch, td, utreexo.Proof{Targets: bt, Proof: bp})
	})
	g.end()
	if pan == "" && err == nil {
		var tH []Hash
		var terr error
		tpan := protect(func() {
			tH, terr = twin.P.Undo(uint64(st.K), nBefore, dl, dh, twin.H, td, utreexo.Proof{Targets: bt, Proof: bp})
		})
		if tpan != "" || terr != nil {
			w.fail(props, in, "error", fmt.Sprintf("Proof.Undo of a second cached proof with the same block data failed: %v %s", terr, tpan), nil, nil)
		} else {
			twin.H = tH
			twin.S = lc.stumps[len(lc.stumps)-1]
			w.compareHolding(in, twin, st, Rprev, props, "after Proof.Undo of a second cached proof with the same block data")
		}
	}
	// the verifier state is rolled back by restoring the saved value
	lc.S = lc.stumps[len(lc.stumps)-1]
	lc.stumps = lc.stumps[:len(lc.stumps)-1]
	// the full prover is rolled back with its own Undo
	if lc.full == nil {
	} else if e := lc.full.Undo(uint64(st.K), utreexo.Proof{Targets: targets, Proof: proofH}, dels, w.sy.Hs(st.Pre)); e != nil {
		w.fail([]string{"C06"}, in, "error", "Pollard.Undo failed: "+e.Error(), nil, nil)
	}
	w.n = prevN
	if pan != "" {
		w.fail(props, in, "panic", "Proof.Undo panicked: "+pan, nil, nil)
		return
	}
	if err != nil {
		w.fail(props, in, "error", "Proof.Undo failed: "+err.Error(), nil, nil)
		return
	}
	lc.H = newH
	w.mon.retainH(in, "cached hashes", newH)
	w.mon.retainProof(in, "cached proof", &lc.P)
	w.compareHolding(in, lc, st, Rprev, props, "after Proof.Undo")
	w.lightVerify(in, lc, props, "after Proof.Undo")
}


// lightRestrict: the client cuts its cached proof down to some of its leaves,
// asked for in the order the specification chose (GetProofSubset keeps it).
func (w *World) lightRestrict(in *Inst, lc *lightClient, st *Step) {
	props := []string{"C14", "C08"}
	pos := map[Hash]uint64{}
	for i, h := range lc.H {
		if i < len(lc.P.Targets) {
			pos[h] = lc.P.Targets[i]
		}
	}
	wantH := w.leafHashes(st.W)
	wants := make([]uint64, len(wantH))
	for i, h := range wantH {
		p, ok := pos[h]
		if !ok {
			w.fail(props, in, "hold.pairs", fmt.Sprintf("before the restriction the client does not hold L%d", st.W[i]), nil, nil)
			return
		}
		wants[i] = p
	}
	g := w.mon.begin(in, "GetProofSubset")
	P := utreexo.Proof{Targets: g.U("proof.Targets", lc.P.Targets), Proof: g.H("proof.Proof", lc.P.Proof)}
	hs := g.H("hashes", lc.H)
	wa := g.U("wants", wants)
	var rh []Hash
	var rp utreexo.Proof
	var err error
	pan := protect(func() { rh, rp, err = utreexo.GetProofSubset(P, hs, wa, w.big(w.n)) })
	g.end()
	if pan != "" {
		w.fail(props, in, "panic", "GetProofSubset panicked: "+pan, nil, nil)
		return
	}
	if err != nil {
		w.fail(props, in, "subset.error", "GetProofSubset of held leaves failed: "+err.Error(), nil, nil)
		return
	}
	lc.H, lc.P = rh, rp
	// what the restriction returned (its targets are the caller's wants) must survive the later updates and undos
	w.mon.retainH(in, "restricted hashes", rh)
	w.mon.retainProof(in, "restricted proof", &lc.P)
	w.compareHolding(in, lc, st, w.rows(w.n), props, "after GetProofSubset")
	w.lightVerify(in, lc, props, "after GetProofSubset")
}
