package main

// Driver for trace validation of the core family (spec/CoreTrace.tla).
//
// Runs long random block histories against the real Stump, Pollard and
// MapPollard (full and partial, TotalRows 0 and 63) and records what the code
// did and what it showed.  The driver does not know what the right answers
// are: block proofs come from the real prover, and every recorded observation
// (roots, positions, proofs, update data) is judged by TLC, which replays the
// logged actions on the abstract state of the specification.  The only
// verdicts formed here are "an honest block was refused" and panics.

import (
	"encoding/json"
	"fmt"
	"io"
	"math/rand"
	"os"
	"sort"
	"strconv"
	"strings"

	"github.com/utreexo/utreexo"
)

func init() {
	subcommands["drive"] = runDrive
	replayers["drive"] = replayDriveOne
}

// replayDriveOne re-runs the history of a stored driver failure (a refusal of
// an honest block, an error or a panic - deviating observations are confirmed
// by the orchestrator through TLC) and reports whether it fails again.
func replayDriveOne(cfg Config, v *Violation) int {
	var line struct {
		Step struct {
			N int `json:"n"`
		} `json:"step"`
	}
	if err := json.Unmarshal(v.Line, &line); err != nil {
		fmt.Fprintln(os.Stderr, "ERROR bad replay file", err)
		return 2
	}
	tmp, err := os.CreateTemp("", "drive-replay-*.ndjson")
	if err != nil {
		return 2
	}
	tmp.Close()
	defer os.Remove(tmp.Name())
	nh, _ := strconv.Atoi(optVal(v.X, "histories", "20"))
	maxN, _ := strconv.Atoi(optVal(v.X, "maxn", "40"))
	blocks, _ := strconv.Atoi(optVal(v.X, "blocks", "25"))
	_ = nh
	f, _ := os.Create(tmp.Name())
	defer f.Close()
	w := &driveWorld{sy: NewSymb(), rng: rand.New(rand.NewSource(int64(cfg.Seed)*100003 + int64(line.Step.N))), out: json.NewEncoder(f),
		h: line.Step.N, live: map[int]bool{}, held: map[int]bool{}}
	w.remHigh = optVal(v.X, "remhigh", "") == "1"
	if optVal(v.X, "big", "") == "1" {
		w.lcBroken = true
		w.runBig(maxN)
	} else if optVal(v.X, "big", "") == "2" {
		w.lcBroken = true
		w.runSparse(maxN)
	} else if optVal(v.X, "big", "") == "3" {
		w.runLightChain(maxN)
	} else {
		w.run(maxN, blocks)
	}
	for _, fl := range w.fails {
		for _, p := range fl.Props {
			if p == v.Property {
				fmt.Printf("REPRODUCED property=%s inst=%s %s: %s\n", p, fl.Inst, fl.Cat, fl.What)
				return 1
			}
		}
	}
	fmt.Println("NOT-REPRODUCED")
	return 0
}

type driveEvent struct {
	Ev        string      `json:"ev"`
	H         int         `json:"h"` // history number
	I         int         `json:"i"` // step inside the history
	AfterUndo bool        `json:"after_undo,omitempty"`
	Inst      string      `json:"inst,omitempty"`
	Partial   bool        `json:"partial"`
	D         []int       `json:"d"`
	K         int         `json:"k"`
	N         uint64      `json:"n"`
	Roots     []string    `json:"roots"`
	Pos       [][3]uint64 `json:"pos"`
	Untracked []int       `json:"untracked"`
	S         []int       `json:"s"`
	T         [][2]uint64 `json:"t"`
	P         []string    `json:"p"`
	Prev      uint64      `json:"prev"`
	Td        [][2]uint64 `json:"td"`
	Ndel      [][]any     `json:"ndel"`
	Nadd      [][]any     `json:"nadd"`
	Op        string      `json:"op,omitempty"`  // pop: vrem | ingest | prune
	Cached    []int       `json:"cached"`        // stored: the leaves in the instance's index
	Nodes     [][]any     `json:"nodes"`         // stored: every stored [row, idx, hash]
	Prem      [][]any     `json:"prem"`          // mod: per partial instance [name, [added slots it was asked to remember]]
	API       string      `json:"api,omitempty"` // accept: the verifier that accepted
	Hs        []string    `json:"hs"`            // accept: the claimed hashes
	Tg        [][2]uint64 `json:"tg"`            // accept: the claimed positions
	Rem       []int       `json:"rem"`           // mod: slots the light client asked to remember
	Lossy     bool        `json:"lossy"`         // hold: taken after undoing a block that overwrote an empty root (known finding C08-F1)
}

func newEv(ev string, h, i int) driveEvent {
	return driveEvent{Ev: ev, H: h, I: i, D: []int{}, Roots: []string{}, Pos: [][3]uint64{}, Untracked: []int{},
		S: []int{}, T: [][2]uint64{}, P: []string{}, Td: [][2]uint64{}, Ndel: [][]any{}, Nadd: [][]any{}, Rem: []int{}, Cached: []int{}, Nodes: [][]any{}, Prem: [][]any{}, Hs: []string{}, Tg: [][2]uint64{}}
}

type driveWorld struct {
	sy         *Symb
	rng        *rand.Rand
	n          uint64
	live       map[int]bool
	stump      utreexo.Stump
	stumps     []utreexo.Stump
	insts      []*Inst
	stack      []driveSaved
	out        *json.Encoder
	h, i       int
	fails      []Fail
	calls      int
	afterUndo  bool
	pending    []func() driveEvent
	lcP        utreexo.Proof // the light client's cached proof
	lcH        []Hash        // and leaf hashes
	lcBroken   bool
	lcLossy    bool         // the last undo was of a block with a non-empty ToDestroy
	held       map[int]bool // what the light client was asked to hold (bookkeeping of the requests made)
	nmut       int
	remHigh    bool           // light client remembers 2/3 of the additions (mid-size histories)
	sparseTall bool           // sparse scenario with a 12-row subtree: TLC judges the roots only
	script     *scriptedBlock // scripted scenarios (sparse tall forests): the next block
}

// scriptedBlock fixes the deletions, the number of additions and which
// additions the partial forests remember; light = no proof/upd events (TLC
// could not evaluate them at that size in reasonable time).
type scriptedBlock struct {
	d     []int
	k     int
	rem   func(slot int) bool
	lcRem func(slot int) bool // additions the light client remembers in any case
	light bool
}

type driveSaved struct {
	n      uint64
	live   map[int]bool
	d      []int
	k      int
	proof  utreexo.Proof
	roots  []Hash
	cached []map[int]bool
	td     []uint64 // ToDestroy of the block (for the light client's undo)
}

func runDrive(cfg Config, in io.Reader, extra string, workers int) int {
	path := optVal(extra, "trace", "")
	if path == "" {
		fmt.Fprintln(os.Stderr, "drive: no trace file")
		return 2
	}
	f, err := os.Create(path)
	if err != nil {
		fmt.Fprintln(os.Stderr, "ERROR", err)
		return 2
	}
	defer f.Close()
	nh, _ := strconv.Atoi(optVal(extra, "histories", "20"))
	maxN, _ := strconv.Atoi(optVal(extra, "maxn", "40"))
	blocks, _ := strconv.Atoi(optVal(extra, "blocks", "25"))
	only, _ := strconv.Atoi(optVal(extra, "hist", "-1"))
	sy := NewSymb()
	sum := Summary{Samples: []any{}, Known: map[string]int{}, ByProp: map[string]int{}, Extra: map[string]int{}}
	enc := json.NewEncoder(f)
	for h := 0; h < nh; h++ {
		if only >= 0 && h != only {
			continue
		}
		w := &driveWorld{sy: sy, rng: rand.New(rand.NewSource(int64(cfg.Seed)*100003 + int64(h))), out: enc, h: h, live: map[int]bool{}, held: map[int]bool{}}
		w.remHigh = optVal(extra, "remhigh", "") == "1"
		if optVal(extra, "big", "") == "1" {
			w.lcBroken = true // no light client in the large histories
			w.runBig(maxN)
		} else if optVal(extra, "big", "") == "2" {
			w.lcBroken = true
			w.runSparse(maxN)
		} else if optVal(extra, "big", "") == "3" {
			w.runLightChain(maxN)
		} else {
			w.run(maxN, blocks)
		}
		sum.Lines++
		sum.Nontrivial++
		sum.Distinct++
		sum.Calls += w.calls
		sum.Extra["events"] += w.i
		sum.Extra["mutated_proofs_verified"] += w.nmut
		for _, fl := range w.fails {
			for _, p := range fl.Props {
				if cfg.Judge[p] {
					sum.Violations++
					sum.ByProp[p]++
					v := map[string]any{"property": p, "family": "drive", "seed": cfg.Seed, "tier": cfg.Tier, "x": stripTrace(extra),
						"fail": fl, "line": map[string]any{"fam": "drive", "hist": []any{}, "step": map[string]any{"a": "history", "n": h}, "expect": map[string]any{"n": 0, "roots": []string{}}}}
					os.MkdirAll(cfg.OutDir, 0o755)
					rp := fmt.Sprintf("%s/%s-drive-%d-%d.json", cfg.OutDir, p, cfg.Seed, h)
					b, _ := json.MarshalIndent(v, "", " ")
					os.WriteFile(rp, b, 0o644)
					fmt.Printf("##VIOL %s\n", mustJSON(map[string]any{"property": p, "replay": rp, "fail": fl}))
				}
			}
		}
		if len(sum.Samples) < 2 {
			sum.Samples = append(sum.Samples, map[string]any{"fam": "drive", "history": h, "final_n": w.n, "final_live": len(w.live), "events": w.i})
		}
	}
	fmt.Printf("##SUMMARY %s\n", mustJSON(sum))
	return 0
}

// emit queues an event; hashes are named when the queue is flushed, after the
// dictionary has learnt the nodes of the state the block led to.
func (w *driveWorld) emit(e driveEvent) {
	e.AfterUndo = w.afterUndo
	e.I = w.i
	w.i++
	w.pending = append(w.pending, func() driveEvent { return e })
}

func (w *driveWorld) emitLazy(f func(e *driveEvent), ev string) {
	after, i := w.afterUndo, w.i
	w.i++
	w.pending = append(w.pending, func() driveEvent {
		e := newEv(ev, w.h, i)
		e.AfterUndo = after
		f(&e)
		return e
	})
}

func (w *driveWorld) flush() {
	w.learn()
	for _, f := range w.pending {
		w.out.Encode(f())
	}
	w.pending = nil
}

// learn names the hashes of internal nodes.  A hash gets the name (a,b) only
// if it equals the parent hash - computed here, with the standard library -
// of two hashes that already have names; where the candidates come from (the
// children positions of the forests under test) does not matter for the
// truth of the name.  A hash that cannot be named stays "?..." and matches
// nothing the specification expects.
func (w *driveWorld) learn() {
	R := treeRows(w.n)
	for _, in := range w.insts[:2] {
		pan := protect(func() {
			for row := uint8(1); row <= R; row++ {
				for idx := uint64(0); idx < uint64(1)<<(R-row); idx++ {
					h := in.acc().GetHash(enc(RI{row, idx}, R))
					if h == zeroHash || w.sy.T(h)[0] != '?' {
						continue
					}
					l := in.acc().GetHash(enc(RI{row - 1, 2 * idx}, R))
					r := in.acc().GetHash(enc(RI{row - 1, 2*idx + 1}, R))
					lt, rt := w.sy.T(l), w.sy.T(r)
					if lt[0] == '?' || rt[0] == '?' || lt == "0" || rt == "0" {
						continue
					}
					if parentOf(l, r) == h {
						w.sy.H("(" + lt + "," + rt + ")")
					}
				}
			}
		})
		_ = pan
	}
}

func (w *driveWorld) fail(props []string, inst, cat, what string) {
	w.fails = append(w.fails, Fail{Props: props, Inst: inst, Cat: cat, What: fmt.Sprintf("history %d step %d: %s", w.h, w.i, what), Step: w.i})
}

func (w *driveWorld) liveSorted() []int {
	out := make([]int, 0, len(w.live))
	for s := range w.live {
		out = append(out, s)
	}
	sort.Ints(out)
	return out
}

// chooseDeletions picks a deletion set of a random shape.
func (w *driveWorld) chooseDeletions() []int {
	lv := w.liveSorted()
	if len(lv) == 0 {
		return []int{}
	}
	pick := map[int]bool{}
	switch w.rng.Intn(10) {
	case 0: // nothing
	case 8, 9: // all live leaves of one tree of the forest (its root becomes empty; later additions run over it)
		var hs []uint
		for h := uint(0); h < 64; h++ {
			if w.n>>h&1 == 1 {
				hs = append(hs, h)
			}
		}
		h := hs[w.rng.Intn(len(hs))]
		base := int((w.n >> (h + 1)) << (h + 1))
		for s := base; s < base+(1<<h); s++ {
			if w.live[s] {
				pick[s] = true
			}
		}
	case 1: // everything
		for _, s := range lv {
			pick[s] = true
		}
	case 2: // a whole aligned subtree of slots
		hgt := uint(w.rng.Intn(4))
		base := (w.rng.Intn(int(w.n)) >> hgt) << hgt
		for s := base; s < base+(1<<hgt); s++ {
			if w.live[s] {
				pick[s] = true
			}
		}
	case 3: // a sibling pair of slots
		s := lv[w.rng.Intn(len(lv))]
		pick[s] = true
		if w.live[s^1] {
			pick[s^1] = true
		}
	case 4: // the newest leaves
		for j := 0; j < 1+w.rng.Intn(4) && j < len(lv); j++ {
			pick[lv[len(lv)-1-j]] = true
		}
	case 5: // one leaf
		pick[lv[w.rng.Intn(len(lv))]] = true
	default: // a random subset
		p := w.rng.Float64()
		for _, s := range lv {
			if w.rng.Float64() < p {
				pick[s] = true
			}
		}
	}
	out := []int{}
	for s := range pick {
		out = append(out, s)
	}
	// request order: ascending, descending or shuffled
	sort.Ints(out)
	switch w.rng.Intn(3) {
	case 1:
		sort.Sort(sort.Reverse(sort.IntSlice(out)))
	case 2:
		w.rng.Shuffle(len(out), func(a, b int) { out[a], out[b] = out[b], out[a] })
	}
	return out
}

func (w *driveWorld) hashes(slots []int) []Hash {
	out := make([]Hash, len(slots))
	for i, s := range slots {
		out[i] = w.sy.H(leafTerm(s))
	}
	return out
}

func (w *driveWorld) run(maxN, blocks int) {
	p := utreexo.NewAccumulator()
	w.insts = []*Inst{
		{Name: "pollard", Kind: KPollard, P: &p},
		{Name: "map.full.63", Kind: KMapFull, Rows: 63, M: newMap(true, 63)},
		{Name: "map.full.0", Kind: KMapFull, Rows: 0, M: newMap(true, 0)},
		{Name: "map.part.63", Kind: KMapPart, Rows: 63, M: newMap(false, 63), cached: map[int]bool{}},
		{Name: "map.part.0", Kind: KMapPart, Rows: 0, M: newMap(false, 0), cached: map[int]bool{}},
		// partial forests that verify only what they do not remember yet, and prune,
		// ingest and verify-with-remember between blocks
		{Name: "map.free.63", Kind: KMapPart, Rows: 63, M: newMap(false, 63), cached: map[int]bool{}},
		{Name: "map.free.0", Kind: KMapPart, Rows: 0, M: newMap(false, 0), cached: map[int]bool{}},
	}
	w.emit(newEv("reset", w.h, w.i))
	w.flush()
	pan := protect(func() {
		for b := 0; b < blocks; b++ {
			if len(w.stack) > 0 && w.rng.Intn(5) == 0 {
				w.undo()
			} else {
				w.block(maxN)
			}
			if len(w.fails) > 0 {
				return
			}
			w.observe()
			w.holdEvent()
			w.partialOps()
			if len(w.fails) > 0 {
				return
			}
			w.proveSome()
			w.mutateAndVerify()
			w.flush()
		}
	})
	w.flush()
	if pan != "" {
		w.fail([]string{"C01"}, "", "panic", "the library panicked: "+pan)
	}
}

func (w *driveWorld) block(maxN int) {
	sc := w.script
	var d []int
	k := 0
	if sc != nil {
		d, k = append([]int{}, sc.d...), sc.k
	} else {
		d = w.chooseDeletions()
	}
	if room := maxN - int(w.n); room > 0 && sc == nil {
		k = w.rng.Intn(18)
		if k > room {
			k = room
		}
		if w.rng.Intn(4) == 0 {
			k = 0
		}
	}
	dels := w.hashes(d)
	// the block proof comes from the real prover (and is judged by TLC)
	proof := utreexo.Proof{}
	if len(d) > 0 {
		pr, err := w.insts[0].P.Prove(dels)
		w.calls++
		if err != nil {
			w.fail([]string{"C02"}, "pollard", "prove.error", fmt.Sprintf("Prove(%v) failed: %v", d, err))
			return
		}
		proof = pr
		Rn := treeRows(w.n)
		if sc == nil || !sc.light {
			w.emitLazy(func(e *driveEvent) {
				e.Inst = "pollard"
				e.S = d
				e.T, e.P = w.jTargets(pr.Targets, Rn), w.sy.Ts(pr.Proof)
			}, "proof")
		}
	}
	adds := make([]Hash, k)
	leaves := make([]utreexo.Leaf, k)
	for i := range adds {
		adds[i] = w.sy.H(leafTerm(int(w.n) + i))
		leaves[i] = utreexo.Leaf{Hash: adds[i]}
	}
	// roots-only verifier first: its update data is an observation
	w.stumps = append(w.stumps, utreexo.Stump{Roots: append([]Hash{}, w.stump.Roots...), NumLeaves: w.stump.NumLeaves})
	ud, err := w.stump.Update(dels, adds, proof)
	w.calls++
	if err != nil {
		w.fail([]string{"C01"}, "stump", "error", fmt.Sprintf("Stump.Update refused an honest block (delete %v, add %d): %v", d, k, err))
		return
	}
	Rpre, Rpost := treeRows(w.n), treeRows(w.n+uint64(k))
	if sc == nil || !sc.light {
		w.emitLazy(func(e *driveEvent) {
			e.D, e.K, e.Prev = d, k, ud.PrevNumLeaves
			e.Td = w.jTargets(ud.ToDestroy, Rpost)
			e.Ndel = w.jPosHash(ud.NewDelPos, ud.NewDelHash, Rpre)
			e.Nadd = w.jPosHash(ud.NewAddPos, ud.NewAddHash, Rpost)
		}, "upd")
	}

	// the light client: remembers a random subset of the additions
	var rem []uint32
	remSlots := []int{}
	for i := 0; i < k; i++ {
		take := w.rng.Intn(3) == 0
		if w.remHigh {
			take = !take // the light client remembers two additions out of three
		}
		if sc != nil && sc.lcRem != nil && sc.lcRem(int(w.n)+i) {
			take = true
		}
		if take {
			rem = append(rem, uint32(i))
			remSlots = append(remSlots, int(w.n)+i)
		}
	}
	if !w.lcBroken {
		newH, err := w.lcP.Update(w.lcH, adds, proof.Targets, rem, ud)
		w.calls++
		if err != nil {
			w.fail([]string{"C07"}, "lightclient", "error", fmt.Sprintf("Proof.Update failed: %v", err))
			w.lcBroken = true
		} else {
			w.lcH = newH
		}
	}
	saved := driveSaved{n: w.n, live: map[int]bool{}, d: d, k: k, proof: proof, roots: append([]Hash{}, w.stumps[len(w.stumps)-1].Roots...),
		td: append([]uint64{}, ud.ToDestroy...)}
	for s := range w.live {
		saved.live[s] = true
	}
	prem := [][]any{}
	// proofs (from the real prover, in the state before the block) of the targets the
	// "free" partial forests do not remember yet
	needProof := map[string]utreexo.Proof{}
	for _, in := range w.insts {
		if in.Kind == KMapPart && strings.HasPrefix(in.Name, "map.free") {
			var need []int
			for _, s := range d {
				if !in.cached[s] {
					need = append(need, s)
				}
			}
			if len(need) > 0 && len(need) != len(d) {
				pr, err := w.insts[0].P.Prove(w.hashes(need))
				if err != nil {
					w.fail([]string{"C02"}, "pollard", "prove.error", fmt.Sprintf("Prove(%v) failed: %v", need, err))
					return
				}
				needProof[in.Name] = pr
			}
		}
	}
	for _, in := range w.insts {
		saved.cached = append(saved.cached, copyCached(in.cached))
		var err error
		switch in.Kind {
		case KMapPart:
			// the leaves to delete must be remembered: verify (with remember) all of
			// them again, or - the "free" instances - only those not remembered yet
			need := d
			if strings.HasPrefix(in.Name, "map.free") {
				need = nil
				for _, s := range d {
					if !in.cached[s] {
						need = append(need, s)
					}
				}
			}
			if len(need) > 0 {
				np := proof
				nh := dels
				if len(need) != len(d) {
					nh = w.hashes(need)
					np = needProof[in.Name]
				}
				if err = in.M.Verify(nh, np, true); err != nil {
					err = fmt.Errorf("Verify(remember): %v", err)
					break
				}
				w.pop(in, "vrem", need)
			}
			lv := make([]utreexo.Leaf, k)
			pslots := []int{}
			for i := range lv {
				lv[i] = utreexo.Leaf{Hash: adds[i], Remember: w.rng.Intn(2) == 0}
				if sc != nil && sc.rem != nil {
					lv[i].Remember = sc.rem(int(w.n) + i)
				}
				if lv[i].Remember {
					pslots = append(pslots, int(w.n)+i)
				}
			}
			prem = append(prem, []any{in.Name, pslots})
			err = in.M.Modify(lv, dels, proof)
			for _, s := range d {
				delete(in.cached, s)
			}
			for _, s := range pslots {
				in.cached[s] = true
			}
		default:
			err = in.acc().Modify(leaves, dels, proof)
		}
		w.calls++
		if err != nil {
			w.fail([]string{"C01"}, in.Name, "error", fmt.Sprintf("Modify refused an honest block (delete %v, add %d): %v", d, k, err))
			return
		}
	}
	w.stack = append(w.stack, saved)
	m := newEv("mod", w.h, w.i)
	m.D, m.K, m.Rem, m.Prem = d, k, remSlots, prem
	w.emit(m)
	for _, s := range d {
		delete(w.live, s)
		delete(w.held, s)
	}
	for i := 0; i < k; i++ {
		w.live[int(w.n)+i] = true
	}
	for _, x := range remSlots {
		w.held[x] = true
	}
	w.n += uint64(k)
	w.afterUndo = false
}

func (w *driveWorld) undo() {
	sv := w.stack[len(w.stack)-1]
	w.stack = w.stack[:len(w.stack)-1]
	dels := w.hashes(sv.d)
	for idx, in := range w.insts {
		err := in.acc().Undo(uint64(sv.k), sv.proof, dels, sv.roots)
		w.calls++
		if err != nil {
			w.fail([]string{"C06"}, in.Name, "error", fmt.Sprintf("Undo of block (delete %v, add %d) failed: %v", sv.d, sv.k, err))
			return
		}
		if in.Kind == KMapPart {
			// as in Partial.tla: what it remembers of the leaves that existed before the
			// block, plus the leaves the block deleted (they come back remembered)
			for s := range in.cached {
				if uint64(s) >= sv.n {
					delete(in.cached, s)
				}
			}
			for _, s := range sv.d {
				in.cached[s] = true
			}
		}
		_ = idx
	}
	w.lcLossy = false
	if !w.lcBroken {
		newH, err := w.lcP.Undo(uint64(sv.k), w.n, sv.proof.Targets, dels, w.lcH, sv.td, sv.proof)
		w.calls++
		if err != nil {
			w.fail([]string{"C08"}, "lightclient", "error", fmt.Sprintf("Proof.Undo failed: %v", err))
			w.lcBroken = true
		} else {
			w.lcH = newH
		}
	}
	w.stump = w.stumps[len(w.stumps)-1]
	w.stumps = w.stumps[:len(w.stumps)-1]
	w.n, w.live = sv.n, sv.live
	for x := range w.held {
		if uint64(x) >= sv.n {
			delete(w.held, x)
		}
	}
	w.emit(newEv("undo", w.h, w.i))
	w.afterUndo = true
}

// observe records what every instance shows.
func (w *driveWorld) observe() {
	sr := append([]Hash{}, w.stump.Roots...)
	sn := w.stump.NumLeaves
	w.emitLazy(func(e *driveEvent) { e.Inst, e.N, e.Roots = "stump", sn, w.sy.Ts(sr) }, "roots")
	R := treeRows(w.n)
	for _, in := range w.insts {
		name, nl, rs := in.Name, in.numLeaves(), append([]Hash{}, in.roots()...)
		w.emitLazy(func(e *driveEvent) { e.Inst, e.N, e.Roots = name, nl, w.sy.Ts(rs) }, "roots")
		pe := newEv("pos", w.h, w.i)
		pe.Inst, pe.Partial = in.Name, in.Kind == KMapPart
		for s := 0; s < int(w.n); s++ {
			pos, found := in.acc().GetLeafPosition(w.sy.H(leafTerm(s)))
			w.calls++
			if !found {
				pe.Untracked = append(pe.Untracked, s)
				continue
			}
			ri, ok := dec(pos, R)
			if !ok {
				ri = RI{255, pos}
			}
			pe.Pos = append(pe.Pos, [3]uint64{uint64(s), uint64(ri.Row), ri.Idx})
		}
		w.emit(pe)
	}
}

// pop records that a partial forest was asked to remember or forget leaves.
func (w *driveWorld) pop(in *Inst, op string, slots []int) {
	e := newEv("pop", w.h, w.i)
	e.Inst, e.Op, e.S = in.Name, op, append([]int{}, slots...)
	w.emit(e)
	for _, s := range slots {
		if op == "prune" {
			delete(in.cached, s)
		} else if w.live[s] {
			in.cached[s] = true
		}
	}
}

// partialOps: the "free" partial forests prune, ingest and verify-with-remember
// random sets of leaves between blocks; then every partial forest is dumped.
func (w *driveWorld) partialOps() {
	lv := w.liveSorted()
	for _, in := range w.insts {
		if in.Kind != KMapPart {
			continue
		}
		if strings.HasPrefix(in.Name, "map.free") {
			for r := 0; r < 2; r++ {
				switch w.rng.Intn(4) {
				case 0: // forget some of what it remembers, and something it does not
					var s []int
					var keys []int
					for x := range in.cached {
						keys = append(keys, x)
					}
					sort.Ints(keys) // (map order must not decide which random draw goes to which leaf)
					for _, x := range keys {
						if w.rng.Intn(2) == 0 {
							s = append(s, x)
						}
					}
					if w.n > 0 && w.rng.Intn(3) == 0 {
						s = append(s, w.rng.Intn(int(w.n)))
					}
					if len(s) == 0 {
						continue
					}
					if err := in.M.Prune(w.hashes(s)); err != nil {
						w.fail([]string{"C09"}, in.Name, "error", fmt.Sprintf("Prune(%v) failed: %v", s, err))
						return
					}
					w.calls++
					w.pop(in, "prune", s)
				case 1, 2: // remember some live leaves (verified, or ingested unverified)
					if len(lv) == 0 {
						continue
					}
					var s []int
					for _, x := range lv {
						if w.rng.Intn(4) == 0 {
							s = append(s, x)
						}
					}
					if len(s) == 0 {
						s = []int{lv[w.rng.Intn(len(lv))]}
					}
					hs := w.hashes(s)
					pr, err := w.insts[0].P.Prove(hs)
					if err != nil {
						w.fail([]string{"C02"}, "pollard", "prove.error", fmt.Sprintf("Prove(%v) failed: %v", s, err))
						return
					}
					op := "vrem"
					if w.rng.Intn(2) == 0 {
						op = "ingest"
						err = in.M.Ingest(hs, pr)
					} else {
						err = in.M.Verify(hs, pr, true)
					}
					w.calls++
					if err != nil {
						w.fail([]string{"C09"}, in.Name, "error", fmt.Sprintf("%s(%v) failed: %v", op, s, err))
						return
					}
					w.pop(in, op, s)
				}
			}
		}
		w.dumpStored(in)
	}
}

// dumpStored records what a partial forest stores (judged by TLC: StoredOK).
func (w *driveWorld) dumpStored(in *Inst) {
	{
		// dump
		in := in
		type nd struct {
			pos uint64
			h   Hash
		}
		var nodes []nd
		in.M.Nodes.ForEach(func(pos uint64, lf utreexo.Leaf) error {
			nodes = append(nodes, nd{pos, lf.Hash})
			return nil
		})
		var ch []Hash
		in.M.CachedLeaves.ForEach(func(h Hash, pos uint64) error {
			ch = append(ch, h)
			return nil
		})
		T := in.M.TotalRows
		name := in.Name
		w.emitLazy(func(e *driveEvent) {
			e.Inst, e.Partial = name, true
			for _, h := range ch {
				t := w.sy.T(h)
				slot := -1
				if len(t) > 1 && t[0] == 'L' {
					slot, _ = strconv.Atoi(t[1:])
				}
				e.Cached = append(e.Cached, slot)
			}
			sort.Ints(e.Cached)
			sort.Slice(nodes, func(a, b int) bool { return nodes[a].pos < nodes[b].pos })
			for _, x := range nodes {
				ri, ok := dec(x.pos, T)
				if !ok {
					ri = RI{255, x.pos}
				}
				e.Nodes = append(e.Nodes, []any{uint64(ri.Row), ri.Idx, w.sy.T(x.h)})
			}
		}, "stored")
	}
}

// holdEvent records what the light client holds.
func (w *driveWorld) holdEvent() {
	if w.lcBroken {
		return
	}
	hs := append([]Hash{}, w.lcH...)
	tg := append([]uint64{}, w.lcP.Targets...)
	pf := append([]Hash{}, w.lcP.Proof...)
	Rn, lossy := treeRows(w.n), w.lcLossy
	w.emitLazy(func(e *driveEvent) {
		e.Inst, e.Lossy = "lightclient", lossy
		for _, h := range hs {
			t := w.sy.T(h)
			slot := -1
			if len(t) > 1 && t[0] == 'L' {
				slot, _ = strconv.Atoi(t[1:])
			}
			e.S = append(e.S, slot)
		}
		e.T, e.P = w.jTargets(tg, Rn), w.sy.Ts(pf)
	}, "hold")
	if w.lcLossy {
		// known finding C08-F1: leaves may have been lost; put the client back in step
		// with what it should hold (a full prover's proof of it) so that the rest is checked
		w.lcLossy = false
		slots := []int{}
		for x := range w.held {
			slots = append(slots, x)
		}
		sort.Ints(slots)
		w.lcH = w.hashes(slots)
		w.lcP = utreexo.Proof{}
		if len(slots) > 0 {
			if pr, err := w.insts[0].P.Prove(w.lcH); err == nil {
				w.lcP = pr
			} else {
				w.lcBroken = true
			}
		}
	}
}

// proveSome asks the provers for random subsets of what they track.
func (w *driveWorld) proveSome() {
	lv := w.liveSorted()
	if len(lv) == 0 {
		return
	}
	for _, in := range w.insts {
		var cand []int
		for _, s := range lv {
			if in.Kind != KMapPart || in.cached[s] {
				cand = append(cand, s)
			}
		}
		if len(cand) == 0 {
			continue
		}
		w.rng.Shuffle(len(cand), func(a, b int) { cand[a], cand[b] = cand[b], cand[a] })
		s := cand[:1+w.rng.Intn(len(cand))]
		if len(s) > 6 {
			s = s[:6]
		}
		pr, err := in.acc().Prove(w.hashes(s))
		w.calls++
		if err != nil {
			w.fail([]string{"C02"}, in.Name, "prove.error", fmt.Sprintf("Prove(%v) failed: %v", s, err))
			return
		}
		name, ss, Rn := in.Name, append([]int{}, s...), treeRows(w.n)
		w.emitLazy(func(e *driveEvent) {
			e.Inst, e.S = name, ss
			e.T, e.P = w.jTargets(pr.Targets, Rn), w.sy.Ts(pr.Proof)
		}, "proof")
		if _, err := utreexo.Verify(w.stump, w.hashes(s), pr); err != nil {
			w.fail([]string{"C02"}, in.Name, "verify.reject", fmt.Sprintf("Verify rejects the proof %s gave for %v: %v", in.Name, s, err))
		}
		w.calls++
	}
}

// mutateAndVerify (C03 on large forests): an honest proof of a random set of
// live leaves is mutated in structured ways - a target moved to its sibling,
// a cousin, another tree or a position that does not exist, duplicated, or
// replaced by its parent; two hashes swapped; a hash replaced by a root hash
// or a fresh value; a proof hash altered, zeroed, dropped or inserted - and
// given to the stand-alone verifier, the pointer forest and the map forest.
// Every ACCEPTANCE is recorded; TLC decides whether the accepted claims are
// true in the abstract state (ClaimsTrue).
func (w *driveWorld) mutateAndVerify() {
	lv := w.liveSorted()
	if len(lv) == 0 {
		return
	}
	pick := append([]int{}, lv...)
	w.rng.Shuffle(len(pick), func(a, b int) { pick[a], pick[b] = pick[b], pick[a] })
	if k := 1 + w.rng.Intn(4); len(pick) > k {
		pick = pick[:k]
	}
	hs0 := w.hashes(pick)
	pr, err := w.insts[0].P.Prove(hs0)
	if err != nil {
		return // reported by proveSome
	}
	R := treeRows(w.n)
	top := (uint64(1) << (uint(R) + 1)) - 2
	junk := func() Hash { return w.sy.H(junkTerm(1 + w.rng.Intn(50))) }
	type cand struct {
		hs []Hash
		tg []uint64
		pf []Hash
	}
	clone := func() cand {
		return cand{append([]Hash{}, hs0...), append([]uint64{}, pr.Targets...), append([]Hash{}, pr.Proof...)}
	}
	cands := []cand{clone()}
	for i := range pr.Targets {
		t := pr.Targets[i]
		for _, nt := range []uint64{t ^ 1, t + 2, t ^ 2, top, top + 1, top + 5, 1 << 40, uint64(w.rng.Intn(int(top) + 1))} {
			c := clone()
			c.tg[i] = nt
			cands = append(cands, c)
		}
		c := clone() // duplicated target
		c.hs, c.tg = append(c.hs, c.hs[i]), append(c.tg, c.tg[i])
		cands = append(cands, c)
		if ri, ok := dec(t, R); ok && ri.Row < R { // replaced by / nested with its parent
			par := enc(RI{ri.Row + 1, ri.Idx / 2}, R)
			c = clone()
			c.tg[i] = par
			cands = append(cands, c)
			c = clone()
			c.hs, c.tg = append(c.hs, w.insts[0].P.GetHash(par)), append(c.tg, par)
			cands = append(cands, c)
		}
		c = clone()
		c.hs[i] = junk()
		cands = append(cands, c)
		if rs := w.stump.Roots; len(rs) > 0 {
			c = clone()
			c.hs[i] = rs[w.rng.Intn(len(rs))]
			if c.hs[i] != zeroHash {
				cands = append(cands, c)
			}
		}
		for j := i + 1; j < len(pr.Targets); j++ {
			c = clone()
			c.hs[i], c.hs[j] = c.hs[j], c.hs[i]
			cands = append(cands, c)
			c = clone()
			c.tg[i], c.tg[j] = c.tg[j], c.tg[i]
			cands = append(cands, c)
		}
	}
	for k := range pr.Proof {
		c := clone()
		c.pf[k] = junk()
		cands = append(cands, c)
		c = clone()
		c.pf[k] = zeroHash
		cands = append(cands, c)
		c = clone()
		c.pf = append(c.pf[:k:k], c.pf[k+1:]...)
		cands = append(cands, c)
		c = clone()
		c.pf = append(append(append([]Hash{}, c.pf[:k]...), junk()), c.pf[k:]...)
		cands = append(cands, c)
		if k+1 < len(pr.Proof) {
			c = clone()
			c.pf[k], c.pf[k+1] = c.pf[k+1], c.pf[k]
			cands = append(cands, c)
		}
	}
	apis := []struct {
		name string
		call func(c cand) bool
	}{
		{"Verify", func(c cand) bool {
			_, err := utreexo.Verify(w.stump, c.hs, utreexo.Proof{Targets: c.tg, Proof: c.pf})
			return err == nil
		}},
		{"Pollard.Verify", func(c cand) bool {
			return w.insts[0].P.Verify(c.hs, utreexo.Proof{Targets: c.tg, Proof: c.pf}, false) == nil
		}},
		{"MapPollard.Verify/63", func(c cand) bool {
			return w.insts[1].M.Verify(c.hs, utreexo.Proof{Targets: c.tg, Proof: c.pf}, false) == nil
		}},
		{"MapPollard.Verify/0", func(c cand) bool {
			return w.insts[2].M.Verify(c.hs, utreexo.Proof{Targets: c.tg, Proof: c.pf}, false) == nil
		}},
	}
	for _, c := range cands {
		for _, a := range apis {
			c, a := c, a
			var ok bool
			if pan := protect(func() { ok = a.call(c) }); pan != "" {
				w.fail([]string{"C04"}, a.name, "panic", "verifier panicked on a mutated proof: "+pan)
				return
			}
			w.calls++
			w.nmut++
			if !ok {
				continue
			}
			hs, tg := append([]Hash{}, c.hs...), append([]uint64{}, c.tg...)
			w.emitLazy(func(e *driveEvent) {
				e.API, e.Hs, e.Tg = a.name, w.sy.Ts(hs), w.jTargets(tg, R)
			}, "accept")
		}
	}
}

func (w *driveWorld) jTargets(ts []uint64, R uint8) [][2]uint64 {
	out := make([][2]uint64, len(ts))
	for i, t := range ts {
		ri, ok := dec(t, R)
		if !ok {
			ri = RI{255, t}
		}
		out[i] = [2]uint64{uint64(ri.Row), ri.Idx}
	}
	return out
}

func (w *driveWorld) jPosHash(ps []uint64, hs []Hash, R uint8) [][]any {
	out := make([][]any, 0, len(ps))
	for i, t := range ps {
		ri, ok := dec(t, R)
		if !ok {
			ri = RI{255, t}
		}
		h := "?missing"
		if i < len(hs) {
			h = w.sy.T(hs[i])
		}
		out = append(out, []any{uint64(ri.Row), ri.Idx, h})
	}
	for i := len(ps); i < len(hs); i++ {
		out = append(out, []any{uint64(255), uint64(0), w.sy.T(hs[i])})
	}
	return out
}
