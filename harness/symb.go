package main

// Term <-> hash dictionary.  The specification works with a free term algebra
// of hashes ("0", "L5", "J1", "(a,b)"); the code works with 32-byte hashes.
// Terms are mapped to real hashes with the standard library only (nothing is
// imported from the code under test) and every hash the code returns is mapped
// back to the term it stands for.  A hash that was never produced from a term
// becomes "?<hex>", which equals nothing the specification expects.

import (
	"crypto/sha256"
	"crypto/sha512"
	"encoding/binary"
	"encoding/hex"
	"fmt"
	"strconv"
	"sync"

	"github.com/utreexo/utreexo"
)

type Hash = utreexo.Hash

type Symb struct {
	mu  sync.Mutex
	t2h map[string]Hash
	h2t map[Hash]string
	// prefix: every leaf hash starts with the same 12 bytes (leaf hashes are chosen by the
	// user; code that keys a map by a hash prefix must not lose leaves that share it)
	prefix bool
	// sparse: leaf hashes that are zero except for one byte among bytes 16..23 (no information in
	// the first 12 bytes: the pointer forest, which keys its index by them, does not take part)
	sparse bool
	// xorzero: leaf values whose four 64-bit words cancel out (a|a|b|b): ordinary non-zero values
	// that a word-wise emptiness or equality test built on XOR would mistake
	xorzero bool
}

func NewSymb() *Symb {
	return &Symb{t2h: map[string]Hash{}, h2t: map[Hash]string{}}
}

var zeroHash Hash

func leafHash(tag string, i uint64) Hash {
	var b [8]byte
	binary.LittleEndian.PutUint64(b[:], i)
	h := sha256.New()
	h.Write([]byte(tag))
	h.Write(b[:])
	var out Hash
	copy(out[:], h.Sum(nil))
	return out
}

func parentOf(l, r Hash) Hash {
	h := sha512.New512_256()
	h.Write(l[:])
	h.Write(r[:])
	var out Hash
	copy(out[:], h.Sum(nil))
	return out
}

// H returns the hash a term stands for.
func (s *Symb) H(term string) Hash {
	s.mu.Lock()
	defer s.mu.Unlock()
	return s.h(term)
}

func (s *Symb) h(term string) Hash {
	if h, ok := s.t2h[term]; ok {
		return h
	}
	var out Hash
	switch {
	case term == "0":
		out = zeroHash
	case term[0] == 'L':
		i, err := strconv.ParseUint(term[1:], 10, 64)
		if err != nil {
			panic("bad term " + term)
		}
		out = leafHash("verif-leaf", i)
		if s.prefix {
			copy(out[:12], "sharedprefix")
		}
		if s.sparse {
			out = Hash{}
			out[16+i%8] = byte(1 + i/8)
		}
		if s.xorzero {
			copy(out[8:16], out[0:8])
			copy(out[24:32], out[16:24])
		}
	case term[0] == 'B':
		// a hash that is zero except for one byte (B<i>: byte i is 1): values whose
		// emptiness test, prefix or suffix could be mistaken
		i, err := strconv.ParseUint(term[1:], 10, 64)
		if err != nil || i > 31 {
			panic("bad term " + term)
		}
		out[i] = 1
	case term[0] == 'J':
		i, err := strconv.ParseUint(term[1:], 10, 64)
		if err != nil {
			panic("bad term " + term)
		}
		out = leafHash("verif-junk", i)
	case term[0] == '(':
		depth := 0
		split := -1
		for i := 0; i < len(term); i++ {
			switch term[i] {
			case '(':
				depth++
			case ')':
				depth--
			case ',':
				if depth == 1 {
					split = i
				}
			}
			if split >= 0 {
				break
			}
		}
		if split < 0 || term[len(term)-1] != ')' {
			panic("bad term " + term)
		}
		l := s.h(term[1:split])
		r := s.h(term[split+1 : len(term)-1])
		out = parentOf(l, r)
	default:
		panic("bad term " + term)
	}
	s.t2h[term] = out
	if _, dup := s.h2t[out]; !dup {
		s.h2t[out] = term
	}
	return out
}

// T returns the term of a hash ("?hex" if the hash is unknown).
func (s *Symb) T(h Hash) string {
	s.mu.Lock()
	defer s.mu.Unlock()
	if h == zeroHash {
		return "0"
	}
	if t, ok := s.h2t[h]; ok {
		return t
	}
	return "?" + hex.EncodeToString(h[:6])
}

func (s *Symb) Hs(terms []string) []Hash {
	out := make([]Hash, len(terms))
	for i, t := range terms {
		out[i] = s.H(t)
	}
	return out
}

func (s *Symb) Ts(hs []Hash) []string {
	out := make([]string, len(hs))
	for i, h := range hs {
		out[i] = s.T(h)
	}
	return out
}

func leafTerm(slot int) string { return fmt.Sprintf("L%d", slot) }
func junkTerm(j int) string    { return fmt.Sprintf("J%d", j) }

// ---------------------------------------------------------------------------
// Geometry: [row, idx] <-> numeric position in a forest allocated for R rows.
// Closed formula from the property text: row r starts at 2^(R+1) - 2^(R+1-r).
// ---------------------------------------------------------------------------

type RI struct {
	Row uint8
	Idx uint64
}

func rowStart(row, R uint8) uint64 {
	// Shifts by >= 64 yield 0 in Go, and unsigned arithmetic wraps, so the
	// formula is exact for R up to 63.
	return (uint64(1) << (uint(R) + 1)) - (uint64(1) << (uint(R) + 1 - uint(row)))
}

func enc(p RI, R uint8) uint64 {
	return rowStart(p.Row, R) + p.Idx
}

// dec returns the row and offset of pos in a forest of R rows; ok is false if
// pos is not a position of that forest (pos > 2^(R+1)-2).
func dec(pos uint64, R uint8) (RI, bool) {
	var max uint64
	if R == 63 {
		max = ^uint64(0) - 1
	} else {
		max = (uint64(1) << (uint(R) + 1)) - 2
	}
	if pos > max {
		return RI{}, false
	}
	for row := uint8(0); ; row++ {
		var next uint64
		if row == R {
			return RI{row, pos - rowStart(row, R)}, true
		}
		next = rowStart(row+1, R)
		if pos < next {
			return RI{row, pos - rowStart(row, R)}, true
		}
	}
}

func treeRows(n uint64) uint8 {
	r := uint8(0)
	for (uint64(1) << r) < n {
		r++
	}
	return r
}

func (p RI) String() string { return fmt.Sprintf("[%d,%d]", p.Row, p.Idx) }

// posInForest: pos (in coordinates of treeRows(n) rows) is a position of some
// tree of a forest of n leaves, i.e. every leaf slot below it is < n.
func posInForest(pos uint64, n uint64) bool {
	ri, ok := dec(pos, treeRows(n))
	if !ok {
		return false
	}
	if ri.Row >= 64 {
		return false
	}
	last := (ri.Idx+1)<<ri.Row - 1
	return last < n
}

// aliasOf: where a row/offset translation from R rows to T rows that does not
// check its argument sends the number pos (row = count of leading one bits
// from bit R downwards; row 0 passes unchanged).  Only used to recognise the
// known finding C10-F1.
func aliasOf(pos uint64, R, T uint8) uint64 {
	if R == T {
		return pos
	}
	marker := uint64(1) << R
	row := uint8(0)
	for pos&marker != 0 {
		marker >>= 1
		row++
	}
	if row == 0 {
		return pos
	}
	return pos - rowStart(row, R) + rowStart(row, T)
}
