package main

// Replay of the ProofOps family (spec/ProofOps.tla): C14.

import (
	"fmt"
	"sort"

	"github.com/utreexo/utreexo"
)

func init() {
	families["ops"] = func(r *Runner, l *Line) lineResult { return r.replayOps(l) }
}

func sortedU64(a []uint64) []uint64 {
	b := append([]uint64{}, a...)
	sort.Slice(b, func(i, j int) bool { return b[i] < b[j] })
	return b
}

func (r *Runner) replayOps(l *Line) lineResult { return r.opsWith(l, 0) }

// replayLiftOps: the proof operations on a lifted forest (see lift.go)
func (r *Runner) replayLiftOps(l *Line) lineResult {
	if l.Step.N >= 1<<liftS {
		return lineResult{skipped: "too many leaves to lift"}
	}
	res := lineResult{insts: 1, nontrivial: true, extra: map[string]int{}}
	for mi, M := range liftMs {
		if !r.one && (lineHash(l.raw)+uint64(mi))%2 == 1 {
			continue
		}
		r1 := r.opsWith(l, M)
		for i := range r1.fails {
			r1.fails[i].What += fmt.Sprintf(" [lifted onto %d high leaves]", M<<liftS)
		}
		res.fails = append(res.fails, r1.fails...)
		res.calls += r1.calls
		res.extra["lifted_behaviours"]++
	}
	return res
}

func (r *Runner) opsWith(l *Line, liftM uint64) lineResult {
	r.internLine(l)
	w := NewWorld(r.sy, WorldCfg{Seed: r.cfg.Seed})
	w.liftM = liftM
	for b := 63; b >= 0 && liftM > 0; b-- {
		if liftM>>uint(b)&1 == 1 {
			w.highT = append(w.highT, junkTerm(500+b))
		}
	}
	st := &l.Step
	exp := &l.Expect
	w.n = st.N
	R := w.rows(st.N)
	N := w.big(st.N)
	allRoots := w.sy.Hs(w.withHigh(st.Roots))
	in := &Inst{Name: "proofops", Kind: KStump}
	in.S = utreexo.Stump{Roots: allRoots, NumLeaves: N}
	props := []string{"C14"}
	mk := func(p *JProof) ([]uint64, []Hash) { return w.encTargets(p.T, R), w.sy.Hs(p.P) }

	switch st.A {
	case "addproof":
		ta, pa := mk(st.Pfa)
		tb, pb := mk(st.Pfb)
		g := w.mon.begin(in, "AddProof")
		A := utreexo.Proof{Targets: g.U("proofA.Targets", ta), Proof: g.H("proofA.Proof", pa)}
		B := utreexo.Proof{Targets: g.U("proofB.Targets", tb), Proof: g.H("proofB.Proof", pb)}
		ha := g.H("targetHashesA", w.leafHashes(st.As))
		hb := g.H("targetHashesB", w.leafHashes(st.Bs))
		var rh []Hash
		var rp utreexo.Proof
		pan := protect(func() { rh, rp = utreexo.AddProof(A, B, ha, hb, N) })
		g.end()
		if pan != "" {
			w.fail(props, in, "panic", "AddProof panicked: "+pan, nil, nil)
			break
		}
		w.mon.retainH(in, "AddProof hashes", rh)
		w.mon.retainProof(in, "AddProof proof", &rp)
		lc := &lightClient{S: in.S, P: rp, H: rh}
		fake := &Step{Held: exp.Held, Cp: exp.Pf}
		w.compareHolding(in, lc, fake, R, props, "AddProof")
		w.lightVerify(in, lc, props, "AddProof result")

	case "subset":
		tp, pp := mk(st.Pf)
		wants := w.encTargets(st.Pfb.T, R)
		g := w.mon.begin(in, "GetProofSubset")
		P := utreexo.Proof{Targets: g.U("proof.Targets", tp), Proof: g.H("proof.Proof", pp)}
		hs := g.H("hashes", w.leafHashes(st.S))
		wa := g.U("wants", wants)
		var rh []Hash
		var rp utreexo.Proof
		var err error
		pan := protect(func() { rh, rp, err = utreexo.GetProofSubset(P, hs, wa, N) })
		g.end()
		if pan != "" {
			w.fail(props, in, "panic", "GetProofSubset panicked: "+pan, nil, nil)
			break
		}
		if exp.Err {
			if err == nil {
				w.fail(props, in, "subset.noerror", "GetProofSubset accepted a wanted position that the proof does not cover", "error", "nil")
			}
			break
		}
		if err != nil {
			w.fail(props, in, "subset.error", "GetProofSubset failed: "+err.Error(), nil, nil)
			break
		}
		w.mon.retainH(in, "GetProofSubset hashes", rh)
		w.mon.retainProof(in, "GetProofSubset proof", &rp)
		if !eqU64s(rp.Targets, wants) {
			w.fail(props, in, "subset.targets", "returned targets are not the wants in request order", wants, rp.Targets)
		}
		wantH := make([]string, len(st.W))
		for i, s := range st.W {
			wantH[i] = leafTerm(s)
		}
		if got := w.sy.Ts(rh); !eqStrs(got, wantH) {
			w.fail(props, in, "subset.hashes", "returned hashes are not those of the wants in request order", wantH, got)
		}
		if got := w.sy.Ts(rp.Proof); !eqStrs(got, exp.Pf.P) {
			w.fail(props, in, "subset.proof", "returned proof hashes", exp.Pf.P, got)
		}
		// the canonical answer must verify
		lc := &lightClient{S: in.S, P: utreexo.Proof{Targets: wants, Proof: w.sy.Hs(exp.Pf.P)}, H: w.sy.Hs(wantH)}
		w.lightVerify(in, lc, props, "canonical subset proof")

	case "missing":
		ta, pa := mk(st.Pfa)
		tb, _ := mk(st.Pfb)
		// stand-alone function (its second argument is sorted in place: excluded from C17)
		g := w.mon.begin(in, "GetMissingPositions")
		pt := g.U("proofTargets", ta)
		var got []uint64
		pan := protect(func() { got = utreexo.GetMissingPositions(N, pt, append([]uint64{}, tb...)) })
		g.end()
		if pan != "" {
			w.fail(props, in, "panic", "GetMissingPositions panicked: "+pan, nil, nil)
		} else {
			want := sortedU64(w.encTargets(exp.Miss, R))
			if !eqU64s(sortedU64(got), want) {
				w.fail(props, in, "missing.fn", "GetMissingPositions", want, sortedU64(got))
			}
		}
		// a map forest started from the bare roots that learns a proof of A: non-full or full
		// (Full only concerns leaves added from then on), by Ingest or by a remembering verification
		for vi, variant := range []struct {
			full   bool
			verify bool
		}{{false, false}, {true, false}, {false, true}, {true, true}} {
			m := utreexo.NewMapPollardFromRoots(append([]Hash{}, allRoots...), N, variant.full)
			name := "map.fromroots.63"
			if variant.full {
				name += ".full"
			}
			if variant.verify {
				name += ".verified"
			}
			min := &Inst{Name: name, Kind: KMapPart, M: &m}
			_ = vi
			pan = protect(func() {
				if len(st.As) > 0 {
					var err error
					if variant.verify {
						err = m.Verify(w.leafHashes(st.As), utreexo.Proof{Targets: ta, Proof: pa}, true)
					} else {
						err = m.Ingest(w.leafHashes(st.As), utreexo.Proof{Targets: ta, Proof: pa})
					}
					if err != nil {
						w.fail(props, min, "error", "learning the proof of A failed: "+err.Error(), nil, nil)
					}
					// what it was asked to remember it tracks, at the true position
					for i, h := range w.leafHashes(st.As) {
						if pos, found := m.GetLeafPosition(h); !found || pos != ta[i] {
							w.fail([]string{"C10", "C14"}, min, "leafpos", fmt.Sprintf("GetLeafPosition(L%d) after the instance was asked to remember it", st.As[i]), ta[i], []any{pos, found})
						}
					}
				}
				g := w.mon.begin(min, "MapPollard.GetMissingPositions")
				arg := g.U("targets", tb)
				gm := m.GetMissingPositions(arg)
				g.end()
				want := sortedU64(w.encTargets(exp.Missm, R))
				if !eqU64s(sortedU64(gm), want) {
					w.fail(props, min, "missing.map", "MapPollard.GetMissingPositions", want, sortedU64(gm))
				}
				// supplying the true hashes at the missing positions must verify
				g = w.mon.begin(min, "VerifyPartialProof")
				t2 := g.U("targets", tb)
				dh := g.H("delHashes", w.leafHashes(st.Bs))
				ph := g.H("proofHashes", w.sy.Hs(exp.Hs))
				err := m.VerifyPartialProof(t2, dh, ph, false)
				g.end()
				if err != nil {
					w.fail(props, min, "missing.verify", "VerifyPartialProof rejects the true hashes at the missing positions: "+err.Error(), nil, nil)
				}
			})
			if pan != "" {
				w.fail(props, min, "panic", "map forest completion panicked: "+pan, nil, nil)
			}
		}
	default:
		panic(fmt.Sprintf("unknown ops step %q", st.A))
	}
	return lineResult{fails: w.fails, calls: w.mon.ncalls, insts: 1, nontrivial: true}
}
