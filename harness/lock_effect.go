package main

// Verification that remembers, racing with a writer (C12, C03).
//
// Verify(..., remember=true) and VerifyPartialProof(..., remember=true) are
// writers of the map forest: they verify and then store the proof.  The
// schedules here give the call a real effect (the verified leaf is the one the
// writer's block deletes, or it was pruned beforehand so that the call has to
// store it again) and let it race with a writer operation of spec/Partial.tla
// in both orders: the verification suspended right after taking its lock while
// the writer arrives, and the writer suspended at its first interior point
// while the verification arrives.  MapLock.tla makes every such call one
// atomic step, so the outcome must be that of one of the two sequential
// orders: the pair of results and the complete final content of the forest
// (leaf count, rows, every stored node with its flag, the leaf index) are
// compared with both sequential reference runs.  No verdict depends on timing.

import (
	"fmt"
	"runtime"
	"sort"
	"strings"
	"time"

	"github.com/utreexo/utreexo"
)

func dumpMap(m *utreexo.MapPollard) string {
	var sb strings.Builder
	fmt.Fprintf(&sb, "n=%d rows=%d full=%v;", m.NumLeaves, m.TotalRows, m.Full)
	var ns []string
	m.Nodes.ForEach(func(pos uint64, lf utreexo.Leaf) error {
		ns = append(ns, fmt.Sprintf("%d:%x:%v", pos, lf.Hash[:6], lf.Remember))
		return nil
	})
	sort.Strings(ns)
	var cs []string
	m.CachedLeaves.ForEach(func(h Hash, pos uint64) error {
		cs = append(cs, fmt.Sprintf("%x@%d", h[:6], pos))
		return nil
	})
	sort.Strings(cs)
	sb.WriteString(strings.Join(ns, ","))
	sb.WriteString(";")
	sb.WriteString(strings.Join(cs, ","))
	return sb.String()
}

type effOutcome struct{ v, w, dump string }

func (o effOutcome) String() string {
	return "verification: " + o.v + ", writer: " + o.w + ", forest: " + o.dump
}

func errStr(e error) string {
	if e != nil {
		return "err"
	}
	return "ok"
}

func (c *lockCase) effectSchedules(r *Runner, l *Line, n, prevN uint64, opHits int,
	fail func(cat, what string, exp, got any), res *lineResult) (deadlocked bool) {
	st := &l.Step
	pre, _, _, err := c.build(l.Hist)
	if err != nil {
		return false
	}
	// the leaf to verify: one the writer deletes or names, else any remembered one
	var cached []Hash
	pre.CachedLeaves.ForEach(func(h Hash, pos uint64) error { cached = append(cached, h); return nil })
	if len(cached) == 0 {
		return false
	}
	sort.Slice(cached, func(i, j int) bool { return string(cached[i][:]) < string(cached[j][:]) })
	x := cached[int(lineHash(l.raw)>>8)%len(cached)]
	prefer := append(append([]int{}, st.D...), st.S...)
	for _, s := range prefer {
		h := c.sy.H(leafTerm(s))
		if _, ok := pre.CachedLeaves.Get(h); ok {
			x = h
			break
		}
	}
	proof, err := pre.Prove([]Hash{x})
	if err != nil {
		return false
	}
	for _, kind := range append(append([]string{}, rememberKinds...), "Prune") {
		for _, pruned := range []bool{false, true} {
			if pruned && kind != "Verify/remember" {
				continue
			}
			doV := func(m *utreexo.MapPollard) (out string) {
				defer func() {
					if rec := recover(); rec != nil {
						out = "PANIC: " + fmt.Sprint(rec)
					}
				}()
				if kind == "Verify/remember" {
					return errStr(m.Verify([]Hash{x}, proof, true))
				}
				if kind == "Prune" {
					return errStr(m.Prune([]Hash{x}))
				}
				return errStr(m.VerifyPartialProof(proof.Targets, []Hash{x}, nil, true))
			}
			doW := func(m *utreexo.MapPollard) string {
				var e error
				if pan := protect(func() { e = c.applyStep(m, st, n, prevN) }); pan != "" {
					return "PANIC: " + pan
				}
				return errStr(e)
			}
			fresh := func() *utreexo.MapPollard {
				cc := *c
				cc.custom = kind == "Prune" // (suspended at its first look-up in the leaf index)
				m, _, _, err := cc.build(l.Hist)
				if err != nil {
					return nil
				}
				if pruned {
					if m.Prune([]Hash{x}) != nil {
						return nil
					}
				}
				return m
			}
			seq := func(vFirst bool) (effOutcome, bool) {
				m := fresh()
				if m == nil {
					return effOutcome{}, false
				}
				var o effOutcome
				if vFirst {
					o.v = doV(m)
					o.w = doW(m)
				} else {
					o.w = doW(m)
					o.v = doV(m)
				}
				o.dump = dumpMap(m)
				return o, true
			}
			utreexo.VerifPoint = nil
			a, ok1 := seq(true)
			a2, ok2 := seq(true)
			b, ok3 := seq(false)
			b2, ok4 := seq(false)
			if !ok1 || !ok2 || !ok3 || !ok4 || a != a2 || b != b2 {
				// not a deterministic pair of references: nothing to compare with
				res.extra["effect_schedules_skipped"]++
				continue
			}
			if strings.HasPrefix(a.v, "PANIC") || strings.HasPrefix(a.w, "PANIC") || strings.HasPrefix(b.v, "PANIC") || strings.HasPrefix(b.w, "PANIC") {
				continue // a sequential panic is not a matter of this check
			}
			for _, readerFirst := range []bool{true, false} {
				if !readerFirst && opHits < 1 {
					continue
				}
				m := fresh()
				if m == nil {
					continue
				}
				var ctl *pauseCtl
				if readerFirst && kind == "Prune" {
					// no hook point: the call is suspended at its first look-up in the leaf index
					ctl = &pauseCtl{paused: make(chan struct{}), release: make(chan struct{})}
					if ol, ok := m.CachedLeaves.(*orderedLeaves); ok {
						ol.paused, ol.release = ctl.paused, ctl.release
						ol.armed.Store(true)
					}
				} else if readerFirst {
					ctl = &pauseCtl{atSite: "q." + strings.TrimSuffix(kind, "/remember"), paused: make(chan struct{}), release: make(chan struct{})}
				} else {
					ctl = &pauseCtl{hit: 1, paused: make(chan struct{}), release: make(chan struct{})}
				}
				utreexo.VerifPoint = ctl.hook
				vdone := make(chan string, 1)
				wdone := make(chan string, 1)
				first, second := func() { vdone <- doV(m) }, func() { wdone <- doW(m) }
				firstDone := (<-chan string)(vdone)
				if !readerFirst {
					first, second = second, first
					firstDone = wdone
				}
				go first()
				var early string
				gotEarly := false
				select {
				case <-ctl.paused:
				case early = <-firstDone:
					gotEarly = true
				case <-time.After(10 * time.Second):
				}
				go second()
				spin := time.Now().Add(300 * time.Microsecond)
				for time.Now().Before(spin) {
					runtime.Gosched()
				}
				close(ctl.release)
				var o effOutcome
				dead := false
				get := func(ch <-chan string) string {
					select {
					case s := <-ch:
						return s
					case <-time.After(10 * time.Second):
						dead = true
						return "?"
					}
				}
				if gotEarly && readerFirst {
					o.v = early
				} else {
					o.v = get(vdone)
				}
				if gotEarly && !readerFirst {
					o.w = early
				} else {
					o.w = get(wdone)
				}
				utreexo.VerifPoint = nil
				res.calls += 2
				res.extra["effect_schedules_run"]++
				order := "the verification suspended after taking its lock, the writer arriving"
				if !readerFirst {
					order = "the writer suspended at its first interior point, the verification arriving"
				}
				what := fmt.Sprintf("%s of a remembered leaf (pruned beforehand: %v) racing with the writer's %s (TotalRows %d; %s)", kind, pruned, st.A, c.rows, order)
				if dead {
					fail("deadlock", "deadlock: "+what+": not everyone finished within 10s", nil, nil)
					return true
				}
				o.dump = dumpMap(m)
				if strings.HasPrefix(o.v, "PANIC") || strings.HasPrefix(o.w, "PANIC") {
					fail("panic", what+": "+o.v+" / "+o.w, nil, nil)
					continue
				}
				if o != a && o != b {
					fail("notatomic", what+": the results and the final content of the forest are those of neither sequential order",
						map[string]string{"verification first": a.String(), "writer first": b.String()}, o.String())
				}
			}
		}
	}
	return false
}
